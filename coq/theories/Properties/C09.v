(* C09 -- accepting every marked change in the XML formatter's output reproduces the right document.

   Model: XV.XmlFmt (XMLFormatter: prepare, every handler, _xpath, _make_diff_tags, finalize), tied to
   xmldiff/formatting.py by harness/xmlfmt_corr.py on every run; projections: XV.Projections.accept.
   Only statements here; proofs in XV.XmlFmtProofs0-9, R2, A, D.

   Vocabulary
     L, root              the PREPARED left document as an id-indexed forest (XV.Forest): comment-free;
     W = remove_comments (doc_tree L root)   the same document as the formatter's working tree;
     run_spec root L script = Some fT        the identity-level script applied with the documented (strict) meaning
                          of the actions gives the forest fT -- for Differ output this is DifferSound.gen_script_sound /
                          gen_script_replay, which also gives doc_equiv fT R (the right document);
     render_script pe root L script = Some gs   gs are the namedtuples Differ yields: every node written as
                          utils.getpath(node) in the tree as it is before the action (XV.Render);
     fscript_ok           along the script the prefixes printed by the prefix policy pe are bound in the formatter's
                          namespace map (root declarations, then InsertNamespace) and names are printable XPath names
                          (as PatcherProofs.script_ok; checkable by computation);
     names_plain          attribute actions do not name attributes of the diff namespace;
     run_ok               side conditions on the RUN of the model (XmlFmtProofs4.step_ok and room_ok at every step): a
                          text update meets a text that carries no diff markup yet (each text is updated at most once), a
                          node is renamed at most once, inserted tags are not diff:insert/delete/replace, action texts
                          contain no private-use character, the tail of the root is not updated; and, with use_replace
                          only, the maker has a free private-use code point for every character of the new text of a text
                          update (it allocates one diff:replace opener per replaced segment, 6393 in all).  True of
                          Differ scripts on documents of ordinary size; evaluated by the harness (run_okb) on every
                          generated script (a TESTED premise, reported as such);
     npua W, clean_tags W, nodiff W   the document has no private-use character in texts/tails, no element named
                          diff:insert/delete/replace, no attribute in the diff namespace;
     xequiv ws a b        equal up to attribute order, absent vs empty text, the tail of the root, and -- when
                          ws = normalize & WS_TEXT -- whitespace normalisation of every text and tail.

   PARTIAL: proved for configurations without text tags, with or without use_replace (a replaced text is a
   diff:replace wrapper: its content is the new text, read by accept; XmlFmtProofsR2, XmlFmtProofs3).  Missing for the
   full statement:
   (1) text_tags <> []: the property then speaks of the flattened content of text tags only.  Proved at the level of
       the STRING one text update writes (C09_texttag_update_flat_partial, use_replace = false): read flattened with
       every marked change accepted it is the flattened new text.  "Flattened" = the sequence of characters and of
       child-element placeholders (as table keys, diff marks removed), the placeholders that stand for the start and
       the end of formatting elements ERASED -- that is the meaning of "up to where formatting elements begin and end":
       nothing is said about where they start and stop, nor about their marks.  NOT proved: the tree level (finalize
       with nested formatting elements, then Projections.accept), and that prepare() builds makers and strings with
       the premises pinv / capart / wf_cls / txt_ok; covered by the correspondence check and the accept oracle
       (harness/xmlfmt_corr.py: project).  With text tags format() can also fail (C08_texttags_refuted);
   (2) the premise run_ok is a condition on the run rather than a consequence of "script = Differ output". *)
From Coq Require Import List NArith ZArith Bool.
Import ListNotations.
Require Import XV.Str XV.Json XV.TextFormat XV.Forest XV.Matcher XV.Differ XV.Spec XV.Path XV.WF XV.PathProofs XV.Render
               XV.XmlFmt XV.Projections XV.XmlFmtProofs3 XV.XmlFmtProofs4 XV.XmlFmtProofs5 XV.XmlFmtProofs9 XV.XmlFmtProofsA XV.XmlFmtProofsD XV.XmlFmtProofs2 XV.XmlFmtProofsR2 XV.XmlFmtProofsT1
               XV.PrefixProofs XV.XmlFmtDiffer3 XV.XmlFmtDiffer.
Require XV.Placeholder XV.PlaceholderUndo XV.DMP.
Local Open Scope N_scope.

Theorem C09_accept_partial :
  forall (c : cfg) (o : oracle) (rootns : list (option str * str)) (pe : penv) (root : id)
         (L : forest) (script : list iact) (gs : list gaction) (fT : forest) (T : xtree),
  c_tt c = [] ->
  wf_forest L root -> (forall m, desc L root m -> is_comment (ltag (flab L m)) = false) ->
  let W := remove_comments (doc_tree L root) in
  PlaceholderUndo.npua W = true -> clean_tags W -> nodiff W ->
  run_spec root L script = Some fT -> render_script pe root L script = Some gs ->
  fscript_ok rootns pe root [(Some DIFF_PREFIX, DIFF_NS)] L script -> Forall names_plain script ->
  run_ok c o rootns (FS W Placeholder.ph_init [(Some DIFF_PREFIX, DIFF_NS)]) gs ->
  xml_format c o rootns Placeholder.ph_init gs W = FOk T ->
  xequiv (ws_text c) (accept T) (remove_comments (doc_tree fT root)).
Proof. intros c o rootns pe root L script gs fT T _. exact (accept_format c o rootns pe root L script gs fT T). Qed.
Print Assumptions C09_accept_partial.

(* The same for the differ's OWN script (XV.Differ.gen_script, the model of Differ.diff, for EVERY valid matching --
   whatever the matcher options), composed with DifferSound.gen_script_replay (C01): accepting every marked change
   gives the RIGHT document (as prepare() leaves it: comments removed). *)
Theorem C09_accept_differ_partial :
  forall (c : cfg) (o : oracle) (rootns : list (option str * str)) (pe : penv)
         (L R : forest) (rootL rootR : id) (m : list (id * id)) (gs : list gaction) (T : xtree),
  c_tt c = [] ->
  wf_forest L rootL -> wf_forest R rootR -> valid_matching L R rootL rootR m ->
  (forall x, desc L rootL x -> is_comment (ltag (flab L x)) = false) ->
  let s := gen_script [] R rootR L rootL m in
  let W := remove_comments (doc_tree L rootL) in
  PlaceholderUndo.npua W = true -> clean_tags W -> nodiff W ->
  render_script pe rootL L (out s) = Some gs ->
  fscript_ok rootns pe rootL [(Some DIFF_PREFIX, DIFF_NS)] L (out s) -> Forall names_plain (out s) ->
  run_ok c o rootns (FS W Placeholder.ph_init [(Some DIFF_PREFIX, DIFF_NS)]) gs ->
  xml_format c o rootns Placeholder.ph_init gs W = FOk T ->
  xequiv (ws_text c) (accept T) (remove_comments (doc_tree R rootR)).
Proof. intros c o rootns pe L R rootL rootR m gs T _. exact (accept_differ c o rootns pe L R rootL rootR m gs T). Qed.
Print Assumptions C09_accept_differ_partial.

(* FOR THE DIFFER'S OWN SCRIPTS the run-level premises (fscript_ok, names_plain, run_ok, iact_plain) are THEOREMS
   (XV.XmlFmtDiffer): the statement below has premises about the two documents, the matching and the configuration only.
     L, R                 the two PREPARED documents as forests (comments removed); m any valid matching of them;
     lns, rns             the namespace declarations of the two root elements; pro the namespace prologue Differ.diff
                          emits for them (InsertNamespace / DeleteNamespace actions);
     script               pro ++ out (gen_script [] R rootR L rootL m): the model of Differ.diff (XV.Differ) for that matching;
     ns_decl_okb, doc_names_okb   the namespace / printable-name conditions of PrefixProofs (C13): every namespace used is
                          declared on a root, no prefix is bound to two URIs, names are printable XPath names;
     doc_okb f            every node slot of f is an element; tags, attribute names and values, texts and tails contain no
                          private-use character; tags and attribute names are not in the diff namespace (XmlFmtDiffer3);
     text_size R rootR    the number of characters of all texts and tails of R; only with use_replace: at most 6393 (one
                          private-use code point per replaced segment is then always available).
   Proof idea for run_ok: the breadth-first phase visits every right node once; the text / tail update and the rename
   of a visit aim at the node's partner; partners of different nodes differ (XmlFmtDiffer2.gen_script_parts), so no node
   is updated twice, and a node that has not been updated yet still carries its plain original text (XmlFmtDiffer1.J). *)
Theorem C09_accept_differ :
  forall (c : cfg) (o : oracle) (pe : penv) (L R : forest) (rootL rootR : id) (lns rns : nsmap) (m : list (id * id)) (pro : list iact),
  c_tt c = [] ->
  wf_forest L rootL -> wf_forest R rootR -> valid_matching L R rootL rootR m ->
  ns_prologue lns rns = Some pro ->
  ns_decl_okb pe lns rns L rootL R rootR = true -> doc_names_okb pe L rootL = true -> doc_names_okb pe R rootR = true ->
  doc_okb L = true -> doc_okb R = true ->
  (c_replace c = true -> text_size R rootR <= 6393) ->
  let script := pro ++ out (gen_script [] R rootR L rootL m) in
  let W := remove_comments (doc_tree L rootL) in
  exists gs T, render_script pe rootL L script = Some gs /\ xml_format c o lns Placeholder.ph_init gs W = FOk T /\
               xequiv (ws_text c) (accept T) (remove_comments (doc_tree R rootR)).
Proof. intros c o pe L R rootL rootR lns rns m pro _. exact (differ_accept c o pe L R rootL rootR lns rns m pro). Qed.
Print Assumptions C09_accept_differ.

(* non-vacuity: <a><b>xy</b>t<c/></a> -> <a k="1"><b>xz</b>t<d/></a>, matching a-a, b-b, c-d: every premise by computation *)
Example C09_accept_differ_example :
  (wf_forest dx_L 0%nat /\ wf_forest dx_R 0%nat /\ valid_matching dx_L dx_R 0%nat 0%nat dx_m /\ ns_prologue [] [] = Some [] /\
   ns_decl_okb dx_pe [] [] dx_L 0%nat dx_R 0%nat = true /\ doc_names_okb dx_pe dx_L 0%nat = true /\ doc_names_okb dx_pe dx_R 0%nat = true /\
   doc_okb dx_L = true /\ doc_okb dx_R = true /\ text_size dx_R 0%nat <= 6393).
Proof. exact dx_premises. Qed.
Print Assumptions C09_accept_differ_example.

(* WITH text tags (use_replace = false), one text update, at the level of the string written into node.text:
     s               the maker after prepare(): pinv s (table invariants; a marked element key holds the element it
                     was filed with; the keys of the four wrapper placeholders are attribute-free), capart s (the close
                     placeholder of a formatting element is not a wrapper placeholder), wf_cls (the close placeholder of
                     an OPEN entry is a CLOSE entry);
     txt_ok s c      a character of the two texts is not a wrapper placeholder, and is a placeholder of s (if it stands
                     for an element, the element carries none of diff:insert/delete(-formatting)) or lies outside the
                     private-use range;
     flat0 s y       the flattened content of y: characters and element placeholders (atom_of: the table key of the
                     element, the four marks removed), OPEN / CLOSE placeholders erased;
     fl true s' false x   x read flattened with every marked change accepted (XmlFmtProofsT1). *)
Theorem C09_texttag_update_flat_partial :
  forall (c : cfg) (o : oracle) (s : Placeholder.state) (left right : str) (s' : Placeholder.state) (x : str) (any : bool),
  c_replace c = false -> pinv s -> DMP.wf_cls (cls_of s) -> capart s ->
  Forall (txt_ok s) left -> Forall (txt_ok s) right ->
  make_diff_tags c o s left right false = FOk (s', x, any) -> Placeholder.ctr s' <= Placeholder.PUA_END ->
  fl true s' false x = flat0 s (norm_if c right).
Proof.
  intros c o s left right s' x any H1 H2 H3 H4 H5 H6 H7 H8.
  exact (proj1 (proj2 (text_update_flat c o s left right s' x any H1 H2 H3 H4 H5 H6 H7 H8))).
Qed.
Print Assumptions C09_texttag_update_flat_partial.

(* non-vacuity: a maker with one element placeholder, a<i k="v"/>b -> ab: the premises hold, the update writes
   a, the placeholder of the copy marked diff:delete, b *)
Example C09_texttag_example :
  (pinv ex_s /\ capart ex_s /\ DMP.wf_cls (cls_of ex_s) /\
   Forall (txt_ok ex_s) [97; ex_c; 98] /\ Forall (txt_ok ex_s) [97; 98]) /\
  exists s' x any,
    make_diff_tags ex_cfg ex_o ex_s [97; ex_c; 98] [97; 98] false = FOk (s', x, any) /\
    fl true s' false x = flat0 ex_s [97; 98] /\ fl false s' false x = flat0 ex_s [97; ex_c; 98] /\
    flat0 ex_s [97; ex_c; 98] = [AC 97; atom_of ex_el; AC 98] /\ x = [97; 57352; 98].
Proof. exact (conj ex_premises ex_flat). Qed.
Print Assumptions C09_texttag_example.

(* without text tags prepare() only removes the comments and leaves the maker as created: the state and the
   tree xml_format is started with above are the ones main.diff_trees hands to format() *)
Theorem C09_prepare_notags : forall c L R, c_tt c = [] ->
  prepare c L R = (Placeholder.ph_init, remove_comments L, remove_comments R).
Proof. exact prepare_notags. Qed.
Print Assumptions C09_prepare_notags.

(* C09/C10 are stated against the documents as prepare() leaves them.  Known finding "comment-tail-dropped":
   that is NOT the document with its comments removed -- the text following a comment is lost
   (<a><!--c-->tail<b/></a>: remove_comments gives <a><b/></a>, the correct removal <a>tail<b/></a>). *)
Theorem C09_prepare_keeps_text_refuted :
  exists t, remove_comments t <> strip_comments t /\
            Placeholder.xtext (remove_comments t) = None /\
            Placeholder.xtext (strip_comments t) = Some [116; 97; 105; 108].
Proof. exact remove_comments_drops_tail_refuted. Qed.
Print Assumptions C09_prepare_keeps_text_refuted.

(* Non-vacuity: <a><b>xy</b>t<c/></a>; move c into b, b's text := "xz", rename c -> d, attribute k="1" on a,
   insert <e/> and delete it again.  Every premise holds (by computation) and the conclusion follows. *)
Definition exL : forest := mk_forest [(0%nat, [1%nat; 2%nat])]
  [(0%nat, Lab (TElem [97]) [] None None); (1%nat, Lab (TElem [98]) [] (Some [120;121]) (Some [116]));
   (2%nat, Lab (TElem [99]) [] None None)] 3.
Definition exS : list iact :=
  [IMove 2%nat 1%nat 0%nat; IText 1%nat (Some [120;122]); IRename 2%nat [100]; IInsAttr 0%nat [107] [49];
   IInsert 0%nat [101] 0%nat 3%nat; IDelete 3%nat].
Definition exPe : penv := fun _ => None.
Definition exO : oracle :=
  Orc {| DMP.isalnum := fun c => (97 <=? c) && (c <=? 122); DMP.isspace := fun c => c =? 32 |} (fun _ => false).
Definition exC : cfg := Cfg 0 false [] [].

Fixpoint fscript_okb (rootns : list (option str * str)) (pe : penv) (root : id)
         (ns : list (option str * str)) (f : forest) (script : list iact) : bool :=
  match script with
  | [] => true
  | a :: r =>
      env_agreesb pe (some_ns rootns ++ some_ns (rev ns)) f root && names_okb pe f root &&
      match spec_apply root f a with
      | Some f' => fscript_okb rootns pe root (ns_after a ns) f' r
      | None => true
      end
  end.
Lemma fscript_okb_sound rootns pe root script : forall ns f,
  fscript_okb rootns pe root ns f script = true -> fscript_ok rootns pe root ns f script.
Proof.
  induction script as [|a r IH]; intros ns f H; cbn [fscript_okb fscript_ok] in *; [exact I|].
  apply andb_true_iff in H as [H H3]. apply andb_true_iff in H as [H1 H2].
  split; [apply env_agreesb_iff, H1|]. split; [apply names_okb_iff, H2|].
  destruct (spec_apply root f a); [apply IH, H3|exact I].
Qed.

Example C09_example :
  exists gs fT T,
    run_spec 0%nat exL exS = Some fT /\ render_script exPe 0%nat exL exS = Some gs /\
    xml_format exC exO [] Placeholder.ph_init gs (remove_comments (doc_tree exL 0%nat)) = FOk T /\
    xequiv (ws_text exC) (accept T) (remove_comments (doc_tree fT 0%nat)).
Proof.
  destruct (run_spec 0%nat exL exS) as [fT|] eqn:E1; [|vm_compute in E1; discriminate].
  destruct (render_script exPe 0%nat exL exS) as [gs|] eqn:E2; [|vm_compute in E2; discriminate].
  destruct (xml_format exC exO [] Placeholder.ph_init gs (remove_comments (doc_tree exL 0%nat))) as [T|e] eqn:E3.
  2:{ exfalso. revert E3. vm_compute in E2. inversion E2; subst gs. vm_compute. discriminate. }
  exists gs, fT, T. split; [reflexivity|]. split; [reflexivity|]. split; [exact E3|].
  apply (C09_accept_partial exC exO [] exPe 0%nat exL exS gs fT T eq_refl).
  - apply wf_forestb_sound. vm_compute. reflexivity.
  - intros m Hm. assert (Hin : In m (doc_nodes exL 0%nat)).
    { apply TreeProofs.doc_nodes_iff; [apply wf_forestb_sound; vm_compute; reflexivity|exact Hm]. }
    vm_compute in Hin. destruct Hin as [<-|[<-|[<-|[]]]]; reflexivity.
  - vm_compute. reflexivity.
  - repeat (constructor; try reflexivity).
  - repeat (constructor; try reflexivity).
  - exact E1.
  - exact E2.
  - apply fscript_okb_sound. vm_compute. reflexivity.
  - repeat constructor; reflexivity.
  - apply run_okb_sound. vm_compute in E2. inversion E2; subst gs. vm_compute. reflexivity.
  - exact E3.
Qed.
Print Assumptions C09_example.

(* Non-vacuity with use_replace: the same script; "xy" -> "xz" becomes x<diff:replace old-text="y">z</diff:replace> *)
Definition exC2 : cfg := Cfg 0 true [] [].
Example C09_example_replace :
  exists gs fT T,
    run_spec 0%nat exL exS = Some fT /\ render_script exPe 0%nat exL exS = Some gs /\
    xml_format exC2 exO [] Placeholder.ph_init gs (remove_comments (doc_tree exL 0%nat)) = FOk T /\
    xequiv (ws_text exC2) (accept T) (remove_comments (doc_tree fT 0%nat)).
Proof.
  destruct (run_spec 0%nat exL exS) as [fT|] eqn:E1; [|vm_compute in E1; discriminate].
  destruct (render_script exPe 0%nat exL exS) as [gs|] eqn:E2; [|vm_compute in E2; discriminate].
  destruct (xml_format exC2 exO [] Placeholder.ph_init gs (remove_comments (doc_tree exL 0%nat))) as [T|e] eqn:E3.
  2:{ exfalso. revert E3. vm_compute in E2. inversion E2; subst gs. vm_compute. discriminate. }
  exists gs, fT, T. split; [reflexivity|]. split; [reflexivity|]. split; [exact E3|].
  apply (C09_accept_partial exC2 exO [] exPe 0%nat exL exS gs fT T eq_refl).
  - apply wf_forestb_sound. vm_compute. reflexivity.
  - intros m Hm. assert (Hin : In m (doc_nodes exL 0%nat)).
    { apply TreeProofs.doc_nodes_iff; [apply wf_forestb_sound; vm_compute; reflexivity|exact Hm]. }
    vm_compute in Hin. destruct Hin as [<-|[<-|[<-|[]]]]; reflexivity.
  - vm_compute. reflexivity.
  - repeat (constructor; try reflexivity).
  - repeat (constructor; try reflexivity).
  - exact E1.
  - exact E2.
  - apply fscript_okb_sound. vm_compute. reflexivity.
  - repeat constructor; reflexivity.
  - apply run_okb_sound. vm_compute in E2. inversion E2; subst gs. vm_compute. reflexivity.
  - exact E3.
Qed.
Print Assumptions C09_example_replace.

(* the output of that run does carry a diff:replace wrapper *)
Example C09_example_replace_has_wrapper :
  exists gs T, render_script exPe 0%nat exL exS = Some gs /\
    xml_format exC2 exO [] Placeholder.ph_init gs (remove_comments (doc_tree exL 0%nat)) = FOk T /\
    existsb (fun k => match wrapper_kind k with Some WRep => true | _ => false end)
            (flat_map Placeholder.xkids (Placeholder.xkids T)) = true.
Proof. eexists _, _. split; [vm_compute; reflexivity|]. split; vm_compute; reflexivity. Qed.
Print Assumptions C09_example_replace_has_wrapper.
