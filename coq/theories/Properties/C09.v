(* C09 -- accepting every marked change in the XML formatter's output reproduces the right document.

   Model: XV.XmlFmt (XMLFormatter: prepare, every handler, _xpath, _make_diff_tags, finalize), tied to
   xmldiff/formatting.py by harness/xmlfmt_corr.py on every run; projections: XV.Projections.accept.
   Only statements here; proofs in XV.XmlFmtProofs0-9, A.

   Vocabulary
     L, root              the PREPARED left document as an id-indexed forest (XV.Forest): comment-free;
     W = remove_comments (doc_tree L root)   the same document as the formatter's working tree;
     run_spec root L script = Some fT        the identity-level script applied with the documented (strict) meaning
                          of the actions gives the forest fT -- for Differ output this is DifferSound.gen_script_sound /
                          gen_script_replay, which also gives doc_equiv fT R (the right document);
     render_script pe root L script = Some gs   gs are the namedtuples Differ yields: every node written as
                          utils.getpath(node) in the tree as it is before the action (XV.Render);
     fscript_ok           along the script the prefixes printed by the prefix policy pe are bound in the formatter's
                          namespace map (root declarations, then InsertNamespace) and names are printable XPath names
                          (as PatcherProofs.script_ok; checkable by computation);
     names_plain          attribute actions do not name attributes of the diff namespace;
     run_ok               side conditions on the RUN of the model (XmlFmtProofs4.step_ok at every step): a text update
                          meets a text that carries no diff markup yet (each text is updated at most once), a node is
                          renamed at most once, inserted tags are not diff:insert/delete/replace, action texts contain no
                          private-use character, the tail of the root is not updated.  True of Differ scripts; evaluated
                          by the harness (run_okb) on every generated script (a TESTED premise, reported as such);
     npua W, clean_tags W, nodiff W   the document has no private-use character in texts/tails, no element named
                          diff:insert/delete/replace, no attribute in the diff namespace;
     xequiv ws a b        equal up to attribute order, absent vs empty text, the tail of the root, and -- when
                          ws = normalize & WS_TEXT -- whitespace normalisation of every text and tail.

   PARTIAL: proved for configurations without text tags and without use_replace.  Missing for the full statement:
   (1) text_tags <> []: the property then speaks of the flattened content of text tags only; covered by the
       correspondence check and the accept oracle (harness/xmlfmt_corr.py: project), not by a theorem;
   (2) use_replace = true (the maker then grows by one placeholder per replaced text): covered by correspondence +
       oracle only;
   (3) the premise run_ok is a condition on the run rather than a consequence of "script = Differ output". *)
From Coq Require Import List NArith ZArith Bool.
Import ListNotations.
Require Import XV.Str XV.Json XV.TextFormat XV.Forest XV.Matcher XV.Differ XV.Spec XV.Path XV.WF XV.PathProofs XV.Render
               XV.XmlFmt XV.Projections XV.XmlFmtProofs3 XV.XmlFmtProofs4 XV.XmlFmtProofs5 XV.XmlFmtProofs9 XV.XmlFmtProofsA XV.XmlFmtProofsD.
Require XV.Placeholder XV.PlaceholderUndo XV.DMP.
Local Open Scope N_scope.

Theorem C09_accept_partial :
  forall (c : cfg) (o : oracle) (rootns : list (option str * str)) (pe : penv) (root : id)
         (L : forest) (script : list iact) (gs : list gaction) (fT : forest) (T : xtree),
  c_tt c = [] -> c_replace c = false ->
  wf_forest L root -> (forall m, desc L root m -> is_comment (ltag (flab L m)) = false) ->
  let W := remove_comments (doc_tree L root) in
  PlaceholderUndo.npua W = true -> clean_tags W -> nodiff W ->
  run_spec root L script = Some fT -> render_script pe root L script = Some gs ->
  fscript_ok rootns pe root [(Some DIFF_PREFIX, DIFF_NS)] L script -> Forall names_plain script ->
  run_ok c o rootns (FS W Placeholder.ph_init [(Some DIFF_PREFIX, DIFF_NS)]) gs ->
  xml_format c o rootns Placeholder.ph_init gs W = FOk T ->
  xequiv (ws_text c) (accept T) (remove_comments (doc_tree fT root)).
Proof. intros c o rootns pe root L script gs fT T _. exact (accept_format c o rootns pe root L script gs fT T). Qed.
Print Assumptions C09_accept_partial.

(* The same for the differ's OWN script (XV.Differ.gen_script, the model of Differ.diff, for EVERY valid matching --
   whatever the matcher options), composed with DifferSound.gen_script_replay (C01): accepting every marked change
   gives the RIGHT document (as prepare() leaves it: comments removed). *)
Theorem C09_accept_differ_partial :
  forall (c : cfg) (o : oracle) (rootns : list (option str * str)) (pe : penv)
         (L R : forest) (rootL rootR : id) (m : list (id * id)) (gs : list gaction) (T : xtree),
  c_tt c = [] -> c_replace c = false ->
  wf_forest L rootL -> wf_forest R rootR -> valid_matching L R rootL rootR m ->
  (forall x, desc L rootL x -> is_comment (ltag (flab L x)) = false) ->
  let s := gen_script [] R rootR L rootL m in
  let W := remove_comments (doc_tree L rootL) in
  PlaceholderUndo.npua W = true -> clean_tags W -> nodiff W ->
  render_script pe rootL L (out s) = Some gs ->
  fscript_ok rootns pe rootL [(Some DIFF_PREFIX, DIFF_NS)] L (out s) -> Forall names_plain (out s) ->
  run_ok c o rootns (FS W Placeholder.ph_init [(Some DIFF_PREFIX, DIFF_NS)]) gs ->
  xml_format c o rootns Placeholder.ph_init gs W = FOk T ->
  xequiv (ws_text c) (accept T) (remove_comments (doc_tree R rootR)).
Proof. intros c o rootns pe L R rootL rootR m gs T _. exact (accept_differ c o rootns pe L R rootL rootR m gs T). Qed.
Print Assumptions C09_accept_differ_partial.

(* without text tags prepare() only removes the comments and leaves the maker as created: the state and the
   tree xml_format is started with above are the ones main.diff_trees hands to format() *)
Theorem C09_prepare_notags : forall c L R, c_tt c = [] ->
  prepare c L R = (Placeholder.ph_init, remove_comments L, remove_comments R).
Proof. exact prepare_notags. Qed.
Print Assumptions C09_prepare_notags.

(* C09/C10 are stated against the documents as prepare() leaves them.  Known finding "comment-tail-dropped":
   that is NOT the document with its comments removed -- the text following a comment is lost
   (<a><!--c-->tail<b/></a>: remove_comments gives <a><b/></a>, the correct removal <a>tail<b/></a>). *)
Theorem C09_prepare_keeps_text_refuted :
  exists t, remove_comments t <> strip_comments t /\
            Placeholder.xtext (remove_comments t) = None /\
            Placeholder.xtext (strip_comments t) = Some [116; 97; 105; 108].
Proof. exact remove_comments_drops_tail_refuted. Qed.
Print Assumptions C09_prepare_keeps_text_refuted.

(* Non-vacuity: <a><b>xy</b>t<c/></a>; move c into b, b's text := "xz", rename c -> d, attribute k="1" on a,
   insert <e/> and delete it again.  Every premise holds (by computation) and the conclusion follows. *)
Definition exL : forest := mk_forest [(0%nat, [1%nat; 2%nat])]
  [(0%nat, Lab (TElem [97]) [] None None); (1%nat, Lab (TElem [98]) [] (Some [120;121]) (Some [116]));
   (2%nat, Lab (TElem [99]) [] None None)] 3.
Definition exS : list iact :=
  [IMove 2%nat 1%nat 0%nat; IText 1%nat (Some [120;122]); IRename 2%nat [100]; IInsAttr 0%nat [107] [49];
   IInsert 0%nat [101] 0%nat 3%nat; IDelete 3%nat].
Definition exPe : penv := fun _ => None.
Definition exO : oracle :=
  Orc {| DMP.isalnum := fun c => (97 <=? c) && (c <=? 122); DMP.isspace := fun c => c =? 32 |} (fun _ => false).
Definition exC : cfg := Cfg 0 false [] [].

Fixpoint fscript_okb (rootns : list (option str * str)) (pe : penv) (root : id)
         (ns : list (option str * str)) (f : forest) (script : list iact) : bool :=
  match script with
  | [] => true
  | a :: r =>
      env_agreesb pe (some_ns rootns ++ some_ns (rev ns)) f root && names_okb pe f root &&
      match spec_apply root f a with
      | Some f' => fscript_okb rootns pe root (ns_after a ns) f' r
      | None => true
      end
  end.
Lemma fscript_okb_sound rootns pe root script : forall ns f,
  fscript_okb rootns pe root ns f script = true -> fscript_ok rootns pe root ns f script.
Proof.
  induction script as [|a r IH]; intros ns f H; cbn [fscript_okb fscript_ok] in *; [exact I|].
  apply andb_true_iff in H as [H H3]. apply andb_true_iff in H as [H1 H2].
  split; [apply env_agreesb_iff, H1|]. split; [apply names_okb_iff, H2|].
  destruct (spec_apply root f a); [apply IH, H3|exact I].
Qed.

Example C09_example :
  exists gs fT T,
    run_spec 0%nat exL exS = Some fT /\ render_script exPe 0%nat exL exS = Some gs /\
    xml_format exC exO [] Placeholder.ph_init gs (remove_comments (doc_tree exL 0%nat)) = FOk T /\
    xequiv (ws_text exC) (accept T) (remove_comments (doc_tree fT 0%nat)).
Proof.
  destruct (run_spec 0%nat exL exS) as [fT|] eqn:E1; [|vm_compute in E1; discriminate].
  destruct (render_script exPe 0%nat exL exS) as [gs|] eqn:E2; [|vm_compute in E2; discriminate].
  destruct (xml_format exC exO [] Placeholder.ph_init gs (remove_comments (doc_tree exL 0%nat))) as [T|e] eqn:E3.
  2:{ exfalso. revert E3. vm_compute in E2. inversion E2; subst gs. vm_compute. discriminate. }
  exists gs, fT, T. split; [reflexivity|]. split; [reflexivity|]. split; [exact E3|].
  apply (C09_accept_partial exC exO [] exPe 0%nat exL exS gs fT T eq_refl eq_refl).
  - apply wf_forestb_sound. vm_compute. reflexivity.
  - intros m Hm. assert (Hin : In m (doc_nodes exL 0%nat)).
    { apply TreeProofs.doc_nodes_iff; [apply wf_forestb_sound; vm_compute; reflexivity|exact Hm]. }
    vm_compute in Hin. destruct Hin as [<-|[<-|[<-|[]]]]; reflexivity.
  - vm_compute. reflexivity.
  - repeat (constructor; try reflexivity).
  - repeat (constructor; try reflexivity).
  - exact E1.
  - exact E2.
  - apply fscript_okb_sound. vm_compute. reflexivity.
  - repeat constructor; reflexivity.
  - apply run_okb_sound. vm_compute in E2. inversion E2; subst gs. vm_compute. reflexivity.
  - exact E3.
Qed.
Print Assumptions C09_example.
