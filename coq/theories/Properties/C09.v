(* C09 -- statements land here; model XV.XmlFmt, projections XV.Projections, proofs XV.XmlFmtProofs*. *)
From Coq Require Import List NArith.
Require Import XV.XmlFmt.
