(* C10 with text tags configured, for documents in which no text-tag element has element children: rejecting every marked change gives the left document (attribute values aside, as in C10_reject_differ).
   This is a corollary of C08_C09_C10_flat_texttags (Properties/C08_flat_texttags.v), where the statement is explained.
   This file contains statements only. *)
From Coq Require Import List NArith ZArith Bool.
Import ListNotations.
Require Import XV.Str XV.Json XV.TextFormat XV.Forest XV.Matcher XV.Differ XV.Spec XV.Path XV.WF XV.PathProofs XV.Render
               XV.XmlFmt XV.Projections XV.XmlFmtProofs1 XV.XmlFmtProofs2 XV.XmlFmtProofs5 XV.XmlFmtProofsB XV.XmlFmtProofsC
               XV.PrefixProofs XV.XmlFmtDiffer3 XV.XmlFmtDiffer XV.TextTagsFlat XV.Properties.C08_flat_texttags.
Require XV.Placeholder.
Local Open Scope N_scope.

Theorem C10_flat_texttags :
  forall (c : cfg) (o : oracle) (pe : penv) (L R : forest) (rootL rootR : id) (lns rns : nsmap) (m : list (id * id)) (pro : list iact),
  wf_forest L rootL -> wf_forest R rootR -> valid_matching L R rootL rootR m ->
  ns_prologue lns rns = Some pro ->
  ns_decl_okb pe lns rns L rootL R rootR = true -> doc_names_okb pe L rootL = true -> doc_names_okb pe R rootR = true ->
  doc_okb L = true -> doc_okb R = true ->
  (c_replace c = true -> text_size R rootR <= 6393) ->
  let script := pro ++ out (gen_script [] R rootR L rootL m) in
  let W := remove_comments (doc_tree L rootL) in
  let WR := remove_comments (doc_tree R rootR) in
  tt_flat (c_tt c) W = true -> tt_flat (c_tt c) WR = true ->
  prepare c (doc_tree L rootL) (doc_tree R rootR) = (Placeholder.ph_init, W, WR) /\
  exists gs T, render_script pe rootL L script = Some gs /\
    xml_format c o lns Placeholder.ph_init gs W = FOk T /\ xequiv (ws_text c) (erase_attrs (reject T)) (erase_attrs W).
Proof.
  intros c o pe L R rootL rootR lns rns m pro H1 H2 H3 H4 H5 H6 H7 H8 H9 H10 script W WR HL HR.
  destruct (C08_C09_C10_flat_texttags c o pe L R rootL rootR lns rns m pro H1 H2 H3 H4 H5 H6 H7 H8 H9 H10 HL HR)
    as (Hp & gs & T & A & B & C & D & E).
  split; [exact Hp|]. exists gs, T. repeat split; assumption.
Qed.
Print Assumptions C10_flat_texttags.
