(* C05 -- "Every action is applicable as documented and loses no content
   implicitly: when applied in order, UpdateAttrib targets an attribute that
   exists, InsertAttrib and the new name of RenameAttrib one that does not,
   insert and move positions lie between 0 and the target's child count (not
   counting the moved node), a node is never moved into itself or its own
   subtree, and DeleteNode only ever removes a node that has no child nodes left."

   Models: XV.Pipeline.diff_model (Differ.match + Differ.diff, similarity oracle),
   XV.Spec.spec_apply / run_spec: the documented meaning of the actions as a
   STRICT interpreter, which answers None as soon as a documented precondition is
   violated; run_spec root L script = Some W therefore says that every action of
   the script, applied in order starting from L, is applicable as documented.
   Hypotheses as in C01 (oracle laws "not (F <= 0)" and "0 != 1.0", well-formed
   documents, consistent namespace maps).

   C05_applicable spells the preconditions out, sentence by sentence: for every
   split  script = pre ++ a :: post  and the tree f reached after pre
   (run_spec rootL L pre = Some f), a is applicable to f, and in particular
     UpdateAttrib n k v   : k is an attribute of n             (ahas .. k = true)
     InsertAttrib n k v   : k is not an attribute of n         (ahas .. k = false)
     DeleteAttrib n k     : k is an attribute of n
     RenameAttrib n k k'  : k is, k' is not an attribute of n
     InsertNode / InsertComment target pos : pos <= number of children of target
     MoveNode n target pos: pos <= number of children of target other than n;
                            target is not in the subtree of n (n itself
                            included); n is not the root
     DeleteNode n         : n has no children (nothing is lost implicitly); n is
                            not the root.
   (kidsof f t = the child list of t in f; subtree k f n = n and its descendants;
   mem = list membership; remove_id n l = l without n.)
   C05_every_matching: the same for the differ run on EVERY valid matching.
   Proofs: XV.PipelineProofs (run_spec_split, inversion of spec_apply),
   XV.DifferSound, XV.MatcherProofs. *)
From Coq Require Import List NArith ZArith Bool Arith.
Import ListNotations.
Require Import XV.Str XV.Forest XV.Matcher XV.Differ XV.Spec XV.WF XV.DifferSound
               XV.Pipeline XV.PipelineProofs.

Theorem C05_applicable :
  forall (sim : Type) (sim_ltb sim_leb : sim -> sim -> bool) (sim_is_one : sim -> bool)
         (zero one : sim) (leaf_sim : str -> str -> sim) (combine : sim -> nat -> nat -> sim)
         (o : mopts sim) (L R : forest) (rootL rootR : id) (lns rns : nsmap),
  sim_leb (oF sim o) zero = false -> sim_is_one zero = false ->
  wf_forest L rootL -> wf_forest R rootR ->
  ns_prologue lns rns <> None ->
  exists script W,
    diff_model sim sim_ltb sim_leb sim_is_one zero one leaf_sim combine o L R rootL rootR lns rns
      = Some (script, W)
    /\ run_spec rootL L script = Some W
    /\ forall pre a post f,
         script = pre ++ a :: post -> run_spec rootL L pre = Some f ->
         (exists f', spec_apply rootL f a = Some f') /\
         match a with
         | IUpdAttr n k _ => ahas (lattrs (labof f n)) k = true
         | IInsAttr n k _ => ahas (lattrs (labof f n)) k = false
         | IDelAttr n k => ahas (lattrs (labof f n)) k = true
         | IRenAttr n k k' => ahas (lattrs (labof f n)) k = true /\ ahas (lattrs (labof f n)) k' = false
         | IInsert t _ pos _ | IInsertComment t pos _ _ => pos <= length (kidsof f t)
         | IMove n t pos => pos <= length (remove_id n (kidsof f t))
                            /\ mem t (subtree (S (fnext f)) f n) = false /\ n <> rootL
         | IDelete n => kidsof f n = [] /\ n <> rootL
         | _ => True
         end.
Proof.
  intros sim sim_ltb sim_leb sim_is_one zero one leaf_sim combine o L R rootL rootR lns rns HF H1 HL HR Hns.
  destruct (diff_model_sound sim sim_ltb sim_leb sim_is_one zero one leaf_sim combine
              o L R rootL rootR lns rns (conj HF H1) HL HR Hns) as (script & W & E1 & E2 & _).
  exists script, W. split; [exact E1|]. split; [exact E2|].
  intros pre a post f Hs Hpre. split.
  - subst script. destruct (run_spec_split rootL L pre a post W E2) as (f0 & f' & F1 & F2 & _).
    rewrite Hpre in F1. injection F1 as <-. exists f'. exact F2.
  - exact (run_spec_clauses rootL L script W E2 pre a post f Hs Hpre).
Qed.
Print Assumptions C05_applicable.

Theorem C05_every_matching :
  forall (ignored : list str) (L R : forest) (rootL rootR : id) (m : list (id * id)),
  wf_forest L rootL -> wf_forest R rootR -> valid_matching L R rootL rootR m ->
  let s := gen_script ignored R rootR L rootL m in
  run_spec rootL L (out s) = Some (W s)
  /\ forall pre a post f,
       out s = pre ++ a :: post -> run_spec rootL L pre = Some f ->
       match a with
       | IUpdAttr n k _ => ahas (lattrs (labof f n)) k = true
       | IInsAttr n k _ => ahas (lattrs (labof f n)) k = false
       | IDelAttr n k => ahas (lattrs (labof f n)) k = true
       | IRenAttr n k k' => ahas (lattrs (labof f n)) k = true /\ ahas (lattrs (labof f n)) k' = false
       | IInsert t _ pos _ | IInsertComment t pos _ _ => pos <= length (kidsof f t)
       | IMove n t pos => pos <= length (remove_id n (kidsof f t))
                          /\ mem t (subtree (S (fnext f)) f n) = false /\ n <> rootL
       | IDelete n => kidsof f n = [] /\ n <> rootL
       | _ => True
       end.
Proof.
  intros ignored L R rootL rootR m HL HR Hvm s.
  destruct (gen_script_replay ignored L R rootL rootR m HL HR Hvm) as (_ & E2 & _).
  split; [exact E2|]. exact (run_spec_clauses rootL L (out s) (W s) E2).
Qed.
Print Assumptions C05_every_matching.

(* Non-vacuity: the example of C01 (a move, an attribute update, an insertion).
   The hypotheses hold; the script is applicable; the clauses, evaluated on the
   intermediate trees, compute to true; and the strict interpreter does refuse
   scripts that violate them (an update of a missing attribute, an insertion
   beyond the last child, a move of a node into itself, the deletion of a node
   with children). *)
Example C05_example :
  let L := mk_forest [(0, [1; 2])]
            [(0, Lab (TElem [114%N]) [] None None);
             (1, Lab (TElem [97%N]) [([107%N], [49%N]); ([105%N], [55%N])] (Some [120%N]) None);
             (2, Lab (TElem [98%N]) [] None None)] 3 in
  let R := mk_forest [(0, [1; 2; 3])]
            [(0, Lab (TElem [114%N]) [] None None);
             (1, Lab (TElem [98%N]) [] None None);
             (2, Lab (TElem [97%N]) [([107%N], [50%N]); ([105%N], [56%N])] (Some [121%N]) None);
             (3, Lab TComment [] (Some [99%N]) (Some [116%N]))] 4 in
  let leaf := fun a b : str => if str_eqb a b then 100 else
              match a, b with x :: _, y :: _ => if N.eqb x y then 60 else 10 | _, _ => 10 end in
  let comb := fun m c n : nat => if Nat.ltb 0 n && Nat.eqb c n then m else m * 70 / 100 in
  let is_one := fun x => Nat.eqb x 100 in
  let o := MOpts nat 50 [] false false [[105%N]] in
  let lns : nsmap := [(None, [117%N])] in
  let rns : nsmap := [(None, [117%N]); (Some [112%N], [118%N])] in
  let script := [IInsNs (Some [112%N]) [118%N]; IMove 1 0 1; IUpdAttr 1 [107%N] [50%N];
                 IText 1 (Some [121%N]); IInsertComment 0 2 (Some [99%N]) 3; ITail 3 (Some [116%N])] in
  Nat.leb (oF nat o) 0 = false /\ is_one 0 = false /\
  wf_forest L 0 /\ wf_forest R 0 /\ ns_prologue lns rns <> None /\
  option_map fst (diff_model nat Nat.ltb Nat.leb is_one 0 100 leaf comb o L R 0 0 lns rns) = Some script /\
  (* the move: position 1 <= |children of 0 without 1| = 1, target 0 not below 1 *)
  (Nat.leb 1 (length (remove_id 1 (kidsof L 0))) && negb (mem 0 (subtree (S (fnext L)) L 1)) = true) /\
  (* the update: k exists after the first two actions *)
  match run_spec 0 L (firstn 2 script) with
  | Some f => ahas (lattrs (labof f 1)) [107%N] = true
  | None => False
  end /\
  (* the insertion: position 2 <= 2 children *)
  match run_spec 0 L (firstn 4 script) with
  | Some f => Nat.leb 2 (length (kidsof f 0)) = true
  | None => False
  end /\
  (* the strict interpreter refuses what C05 excludes *)
  run_spec 0 L [IUpdAttr 2 [107%N] [50%N]] = None /\
  run_spec 0 L [IInsAttr 1 [107%N] [50%N]] = None /\
  run_spec 0 L [IInsert 0 [99%N] 3 3] = None /\
  run_spec 0 L [IMove 1 1 0] = None /\
  run_spec 0 L [IMove 1 0 2] = None /\
  run_spec 0 L [IDelete 0] = None /\
  run_spec 0 R [IMove 2 1 0; IDelete 1] = None.
Proof.
  cbv zeta.
  split; [reflexivity|]. split; [reflexivity|].
  split; [apply wf_forestb_sound; vm_compute; reflexivity|].
  split; [apply wf_forestb_sound; vm_compute; reflexivity|].
  split; [vm_compute; discriminate|].
  repeat (split; [vm_compute; reflexivity|]). vm_compute. reflexivity.
Qed.
Print Assumptions C05_example.
