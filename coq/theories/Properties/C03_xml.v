(* C03, third clause: for an EMPTY edit script "the 'xml' formatter returns the document without any diff markup".

   Model: XV.XmlFmt (prepare, xml_format, finalize) with XV.Placeholder (do_tree / undo_tree); tied to
   xmldiff/formatting.py by harness/xmlfmt_corr.py and harness/props/C11.py on every run.

   C03_xml_formatter_empty holds for EVERY formatter configuration c -- any text tags and formatting tags, use_replace,
   any normalize value -- and every pair of documents L (left) and R (right; it only matters through the placeholders
   prepare() files for it):
     prepare c L R = (s, LP, RP)    what XMLFormatter.prepare does: comments removed, the content of text tags replaced by
                                    placeholders in both trees, s the maker afterwards;
     no_pua (remove_comments L)     the left document has no character in the formatter's private-use range (else: open
                                    finding pua-char-in-document);
     ctr s <= PUA_END               the maker has not run out of private-use code points (fewer than 6394 placeholders);
     xheight .. < UNDO_DEPTH        nesting below Python's recursion limit (undo_element recurses per level);
   then xml_format on the empty script returns a tree T that IS the prepared left document (tree_equiv: equal up to the
   distinction between an absent and an empty text) -- so it carries no diff markup unless the document did.
   Together with C03_equal_empty (equal documents give the empty script) this is the third clause of C03 for equal
   documents.  The printed string is C08_render_parses' business. *)
From Coq Require Import List NArith Bool.
Import ListNotations.
Require Import XV.Str XV.Forest XV.XmlFmt XV.Placeholder XV.PlaceholderUndo XV.PlaceholderFinal XV.EmptyScriptXml.
Require XV.DMP.
Local Open Scope N_scope.

Theorem C03_xml_formatter_empty :
  forall (c : cfg) (o : oracle) (rootns : list (option str * str)) (L R : tree) (s : pstate) (LP RP : xtree),
  prepare c L R = (s, LP, RP) ->
  no_pua (remove_comments L) -> ctr s <= PUA_END -> (xheight (remove_comments L) < UNDO_DEPTH)%nat ->
  exists T, xml_format c o rootns s [] LP = FOk T /\ tree_equiv T (remove_comments L).
Proof. exact xml_format_empty_script. Qed.
Print Assumptions C03_xml_formatter_empty.

(* the lemma behind it: a tree substituted with one maker is restored by every LATER maker (still inside the private-use
   area) -- the formatter restores the left tree after the right one has been substituted as well *)
Theorem C03_roundtrip_later : forall tt fmt s T s1 T1 s2,
  ph_wf tt fmt s -> no_pua T -> do_tree tt fmt s T = (s1, T1) ->
  PlaceholderProofs.ext s1 s2 -> PlaceholderProofs.ph_inv s2 -> PlaceholderRound.good tt fmt s2 -> ctr s2 <= PUA_END ->
  forall fuel, (xheight T < fuel)%nat ->
    exists T2, undo_tree_fuel fuel s2 T1 = Ok T2 /\ tree_equiv T2 T.
Proof. exact roundtrip_later. Qed.
Print Assumptions C03_roundtrip_later.

(* non-vacuity: text tag p, formatting tag b;  L = doc( p( a, b(x), c, i[k=1] ), comment, q ),  R = doc( p( a, b(y) ) ):
   the premises hold, placeholders were substituted, and the formatter hands back L without the comment *)
Definition ex_cfg : cfg := Cfg 0 false [[112]] [[98]].
Definition el (tag : str) (attrs : list (str * str)) (text tail : option str) (kids : list tree) : tree :=
  Node (Lab (TElem tag) attrs text tail) kids.
Definition ex_L : tree :=
  el [100;111;99] [] None None
     [el [112] [] (Some [97]) None [el [98] [] (Some [120]) (Some [99]) []; el [105] [([107], [49])] None None []];
      Node (Lab TComment [] (Some [110;111;116;101]) None) [];
      el [113] [] None None []].
Definition ex_R : tree :=
  el [100;111;99] [] None None [el [112] [] (Some [97]) None [el [98] [] (Some [121]) None []]].
Definition ex_o : oracle := Orc {| DMP.isalnum := fun _ => true; DMP.isspace := fun _ => false |} (fun _ => false).
Definition ex_prep := Eval vm_compute in prepare ex_cfg ex_L ex_R.
Example C03_xml_formatter_empty_example :
  prepare ex_cfg ex_L ex_R = ex_prep /\
  no_pua (remove_comments ex_L) /\ ctr (fst (fst ex_prep)) <= PUA_END /\
  (xheight (remove_comments ex_L) < UNDO_DEPTH)%nat /\
  snd (fst ex_prep) <> remove_comments ex_L /\
  exists T, xml_format ex_cfg ex_o [] (fst (fst ex_prep)) [] (snd (fst ex_prep)) = FOk T /\ tnorm T = tnorm (remove_comments ex_L).
Proof.
  split; [vm_compute; reflexivity|]. split; [vm_compute; reflexivity|]. split; [vm_compute; intro H; discriminate H|].
  split; [apply PeanoNat.Nat.ltb_lt; vm_compute; reflexivity|]. split; [vm_compute; intro H; discriminate H|].
  eexists. split; vm_compute; reflexivity.
Qed.
Print Assumptions C03_xml_formatter_empty_example.
