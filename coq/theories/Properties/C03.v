(* C03 (forward direction) -- "Diffing a document against an equal document
   returns an empty edit script under every option combination."

   Models: XV.Matcher.match_nodes (Differ.match) and XV.Differ.diff_given
   (Differ.diff), both validated against the Python implementation by
   differential testing; the similarity of two node texts is an ORACLE
   (sim, sim_ltb, sim_leb, sim_is_one, zero, one, leaf_sim, combine).

   C03_equal_empty: for every oracle satisfying the laws below, every option
   record o -- any threshold F, any uniqueattrs / ignored_attrs, fast_match and
   best_match set or not -- every well-formed document L (XV.WF.wf_forest) and
   every document R equal to L (XV.EqualDocsBase.same_doc: same ids -- both trees
   are numbered in pre-order, so this is without loss of generality --, same
   child lists, tags, texts and tails, attribute lists equal up to order), with
   the same namespace map lns on both sides:
     * match() returns the identity matching (each document node paired with
       itself, and nothing else), and
     * diff() returns the EMPTY script and leaves its working tree equal to L.
   NOTHING is excluded: the three strategies are covered.

   Oracle laws (explicit hypotheses; each is true of the float oracle):
     ratio(s, s) == 1.0;  combine(1.0, n, n) == 1.0 for n > 0;  one == 1.0;
     0 < x and F <= x whenever x == 1.0;
   and, used by fast_match only:  not (F <= 0), and
     F <= combine(leaf_sim s t, 0, n) implies F <= combine(1.0, 0, n')  (n, n' > 0)
   i.e. with no child matched a pair cannot beat a node against itself
   (sqrt(m^2/2) <= sqrt(1/2) since m <= 1.0; 0/n = 0 whatever n).
   The namespace hypothesis says every binding of lns is found under its own
   prefix (true as soon as the prefixes are distinct: EqualDocs.ns_hyp_of_NoDup).

   C03_formatter_empty: the 'diff' text formatter renders the empty script as
   the empty string (by computation on the generated tables).

   C03_example: the hypotheses are satisfiable and the conclusion computes, on
     <r><a k="1" j="2">x</a><a k="1" j="2">x</a><b><a k="1" j="2">x</a></b></r>
   (duplicate siblings, a repeated subtree) against the same document with the
   attributes in the other order, with a nat-valued oracle (percent), for the
   default strategy, best_match, fast_match with F = 50 and fast_match with
   F = 80 (where only the leaves pass the LCS stage).
   Proofs: XV.EqualDocs (EqualDocsBase, EqualDocsMatch, EqualDocsScript). *)
From Coq Require Import List NArith ZArith Bool Arith.
Import ListNotations.
Require Import XV.Str XV.Forest XV.Matcher XV.Differ XV.WF XV.EqualDocsBase XV.EqualDocs.
Require Import XV.TextFormat XV.Gen.TextTables.

Theorem C03_equal_empty :
  forall (sim : Type) (sim_ltb sim_leb : sim -> sim -> bool) (sim_is_one : sim -> bool)
         (zero one : sim) (leaf_sim : str -> str -> sim) (combine : sim -> nat -> nat -> sim)
         (o : mopts sim) (L R : forest) (root : id) (lns : nsmap),
  (forall s, sim_is_one (leaf_sim s s) = true) ->
  (forall m n, sim_is_one m = true -> 0 < n -> sim_is_one (combine m n n) = true) ->
  sim_is_one one = true ->
  (forall x, sim_is_one x = true -> sim_ltb zero x = true) ->
  (forall x, sim_is_one x = true -> sim_leb (oF sim o) x = true) ->
  (ofast sim o = true -> sim_leb (oF sim o) zero = false) ->
  (ofast sim o = true ->
   forall s t n x n', 0 < n -> sim_leb (oF sim o) (combine (leaf_sim s t) 0 n) = true ->
                      sim_is_one x = true -> 0 < n' ->
                      sim_leb (oF sim o) (combine x 0 n') = true) ->
  wf_forest L root ->
  same_doc L R ->
  (forall k v, In (k, v) lns -> ns_get lns k = Some v) ->
  exists m,
    match_nodes sim sim_ltb sim_leb sim_is_one zero one leaf_sim combine o L R root root = Some m /\
    (forall l r, In (l, r) m -> l = r) /\
    (forall n, desc L root n -> In (n, n) m) /\
    diff_given (oignored sim o) R root L root lns lns m = Some ([], L).
Proof. exact equal_docs_empty_script. Qed.
Print Assumptions C03_equal_empty.

Theorem C03_formatter_empty : format tables [] = Ok [].
Proof. vm_compute. reflexivity. Qed.
Print Assumptions C03_formatter_empty.

Example C03_example :
  let L := ex_doc false in
  let R := ex_doc true in
  let is_one := fun x => Nat.eqb x 100 in
  let idm := [(1, 1); (2, 2); (4, 4); (3, 3); (0, 0)] in
  (* the hypotheses of C03_equal_empty hold for the four option sets *)
  (forall F fast, F = 50 \/ F = 80 ->
     (forall s, is_one (ex_leaf s s) = true) /\
     (forall m n, is_one m = true -> 0 < n -> is_one (ex_comb m n n) = true) /\
     is_one 100 = true /\
     (forall x, is_one x = true -> Nat.ltb 0 x = true) /\
     (forall x, is_one x = true -> Nat.leb (oF nat (ex_opts F fast false)) x = true) /\
     (ofast nat (ex_opts F fast false) = true -> Nat.leb (oF nat (ex_opts F fast false)) 0 = false) /\
     (ofast nat (ex_opts F fast false) = true ->
      forall s t n x n', 0 < n ->
        Nat.leb (oF nat (ex_opts F fast false)) (ex_comb (ex_leaf s t) 0 n) = true ->
        is_one x = true -> 0 < n' ->
        Nat.leb (oF nat (ex_opts F fast false)) (ex_comb x 0 n') = true)) /\
  wf_forest L 0 /\ same_doc L R /\
  (forall k v, In (k, v) ex_lns -> ns_get ex_lns k = Some v) /\
  (* and its conclusion computes *)
  (let run := fun F fast best =>
     match_nodes nat Nat.ltb Nat.leb is_one 0 100 ex_leaf ex_comb (ex_opts F fast best) L R 0 0 in
   let script := fun m => diff_given [] R 0 L 0 ex_lns ex_lns m in
   run 50 false false = Some idm /\ run 50 false true = Some idm /\
   run 50 true false = Some idm /\ run 80 true false = Some idm /\
   script idm = Some ([], L)).
Proof. exact (conj ex_laws (conj ex_wf (conj ex_same (conj ex_ns ex_computes)))). Qed.
Print Assumptions C03_example.

(* ---------------------------------------------------------------------- *)
(* C03, converse direction -- "whenever the two documents differ in a tag,
   attribute, text, tail, comment or child order, the edit script is non-empty."

   Stated contrapositively: if the script contains nothing but namespace actions
   (in particular if it is empty) then the two documents are equal, i.e.
   tree_equivb -- same tags, attribute sets and values (up to the ignored
   attributes of the options, none when ignored_attrs = []), texts, tails
   (None = ""), comments, children in the same order -- holds of L and R.
   Hence documents that are NOT equal in that sense get a script with at least
   one action that is not a namespace action (C03_differ_nonempty; is_ns_action a
   = true exactly for InsertNamespace / DeleteNamespace).
   Hypotheses: the two oracle laws of the matcher theorem ("not (F <= 0)",
   "0 != 1.0"), well-formed documents (XV.WF.wf_forest).
   C03_empty_equal_every_matching: the differ half, for EVERY valid matching.
   Proofs: XV.PipelineProofs (from DifferSound.gen_script_replay: replaying the
   script on L yields a tree equal to R; namespace actions do not touch the tree). *)
Require Import XV.Spec XV.DifferSound XV.Pipeline XV.PipelineProofs.

Theorem C03_empty_equal :
  forall (sim : Type) (sim_ltb sim_leb : sim -> sim -> bool) (sim_is_one : sim -> bool)
         (zero one : sim) (leaf_sim : str -> str -> sim) (combine : sim -> nat -> nat -> sim)
         (o : mopts sim) (L R : forest) (rootL rootR : id) (lns rns : nsmap)
         (script : list iact) (W : forest),
  sim_leb (oF sim o) zero = false -> sim_is_one zero = false ->
  wf_forest L rootL -> wf_forest R rootR ->
  diff_model sim sim_ltb sim_leb sim_is_one zero one leaf_sim combine o L R rootL rootR lns rns
    = Some (script, W) ->
  forallb (fun a => match a with IInsNs _ _ | IDelNs _ => true | _ => false end) script = true ->
  tree_equivb (tree_map_attrs (node_attribs_d (oignored sim o)) (to_tree (S (fnext L)) L rootL))
              (tree_map_attrs (node_attribs_d (oignored sim o)) (to_tree (S (fnext R)) R rootR)) = true.
Proof.
  intros sim sim_ltb sim_leb sim_is_one zero one leaf_sim combine o L R rootL rootR lns rns script W HF H1.
  apply diff_model_only_ns_equiv. split; assumption.
Qed.
Print Assumptions C03_empty_equal.

Theorem C03_differ_nonempty :
  forall (sim : Type) (sim_ltb sim_leb : sim -> sim -> bool) (sim_is_one : sim -> bool)
         (zero one : sim) (leaf_sim : str -> str -> sim) (combine : sim -> nat -> nat -> sim)
         (o : mopts sim) (L R : forest) (rootL rootR : id) (lns rns : nsmap)
         (script : list iact) (W : forest),
  sim_leb (oF sim o) zero = false -> sim_is_one zero = false ->
  wf_forest L rootL -> wf_forest R rootR ->
  diff_model sim sim_ltb sim_leb sim_is_one zero one leaf_sim combine o L R rootL rootR lns rns
    = Some (script, W) ->
  tree_equivb (tree_map_attrs (node_attribs_d (oignored sim o)) (to_tree (S (fnext L)) L rootL))
              (tree_map_attrs (node_attribs_d (oignored sim o)) (to_tree (S (fnext R)) R rootR)) <> true ->
  exists a : iact, In a script /\ is_ns_action a = false.
Proof.
  intros sim sim_ltb sim_leb sim_is_one zero one leaf_sim combine o L R rootL rootR lns rns script W HF H1.
  apply diff_model_differ_nonempty. split; assumption.
Qed.
Print Assumptions C03_differ_nonempty.

Theorem C03_empty_equal_every_matching :
  forall (ignored : list str) (L R : forest) (rootL rootR : id) (m : list (id * id)),
  wf_forest L rootL -> wf_forest R rootR -> valid_matching L R rootL rootR m ->
  out (gen_script ignored R rootR L rootL m) = [] ->
  tree_equivb (tree_map_attrs (node_attribs_d ignored) (to_tree (S (fnext L)) L rootL))
              (tree_map_attrs (node_attribs_d ignored) (to_tree (S (fnext R)) R rootR)) = true.
Proof. exact empty_script_equiv. Qed.
Print Assumptions C03_empty_equal_every_matching.

(* Non-vacuity: <r><a k="1"/></r> against <r><a k="2"/></r> are not equal and the
   script is [UpdateAttrib]; against itself the script is empty. *)
Example C03_converse_example :
  let mk := fun v => mk_forest [(0, [1])]
              [(0, Lab (TElem [114%N]) [] None None);
               (1, Lab (TElem [97%N]) [([107%N], [v])] None None)] 2 in
  let leaf := fun a b : str => if str_eqb a b then 100 else 60 in
  let comb := fun m c n : nat => if Nat.ltb 0 n && Nat.eqb c n then m else m * 70 / 100 in
  let is_one := fun x => Nat.eqb x 100 in
  let o := MOpts nat 50 [] false false [] in
  Nat.leb (oF nat o) 0 = false /\ is_one 0 = false /\
  wf_forest (mk 49%N) 0 /\ wf_forest (mk 50%N) 0 /\
  tree_equivb (doc_tree (mk 49%N) 0) (doc_tree (mk 50%N) 0) = false /\
  option_map fst (diff_model nat Nat.ltb Nat.leb is_one 0 100 leaf comb o (mk 49%N) (mk 50%N) 0 0 [] [])
    = Some [IUpdAttr 1 [107%N] [50%N]] /\
  option_map fst (diff_model nat Nat.ltb Nat.leb is_one 0 100 leaf comb o (mk 49%N) (mk 49%N) 0 0 [] [])
    = Some [].
Proof.
  cbv zeta.
  split; [reflexivity|]. split; [reflexivity|].
  split; [apply wf_forestb_sound; vm_compute; reflexivity|].
  split; [apply wf_forestb_sound; vm_compute; reflexivity|].
  repeat (split; [vm_compute; reflexivity|]). vm_compute. reflexivity.
Qed.
Print Assumptions C03_converse_example.
