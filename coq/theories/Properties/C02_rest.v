(* C02, the uri of insert-namespace.  The parser handler _handle_insert_namespace(self, prefix, uri, *more) joins the
   uri again when DiffParser._split has cut it at its commas (repair a8953ad), so the last verbatim field of such an
   action may hold commas outside quotes and braces.  C02_parse_format_uri is C02_parse_format with that weaker
   well-formedness for the actions a variadic handler reads (wf_action_rest: the last field is a comma-joined list
   of well-formed verbatim pieces -- every URI that has no white space next to its commas); proofs in
   XV.TextFormatRest.  This file contains statements only. *)
From Coq Require Import List NArith ZArith.
Require Import XV.Str XV.Json XV.TextFormat XV.Gen.TextTables XV.TextFormatProofs XV.TextFormatRest.
Require Import XV.Properties.C02.
Import ListNotations.
Local Open Scope N_scope.

Theorem C02_parse_format_uri : forall acts text,
  Forall (fun a => wf_action tables a \/ wf_action_rest tables a) acts -> format tables acts = Ok text ->
  parse tables text = Ok acts /\ length (splitlines text) = length acts.
Proof. intros acts text. exact (parse_format_rest tables acts text C02_tables_ok). Qed.
Print Assumptions C02_parse_format_uri.

(* InsertNamespace p tag:example.org,2005:x  -- not well formed in the sense of C02_parse_format (the comma), well
   formed in the weaker sense, and the round trip computed *)
Definition ins_ns : gaction := GA [73;110;115;101;114;116;78;97;109;101;115;112;97;99;101] [PStr [112]; PStr [116;97;103;58;101;120;97;109;112;108;101;46;111;114;103;44;50;48;48;53;58;120]].
Example C02_uri_example :
  wf_action_rest tables ins_ns /\ ~ wf_action tables ins_ns /\
  match format tables [ins_ns] with
  | Ok text => parse tables text = Ok [ins_ns] /\ length (splitlines text) = 1%nat
  | Err _ => False
  end.
Proof.
  split; [|split].
  - unfold wf_action_rest. cbn.
    split; [reflexivity|]. split; [reflexivity|].
    eexists [_], _. split; [reflexivity|]. split.
    + constructor; [|constructor]. apply field_okqb_spec. vm_compute. reflexivity.
    + unfold field_ok_rest. cbn. split; [reflexivity|].
      exists [[116;97;103;58;101;120;97;109;112;108;101;46;111;114;103]; [50;48;48;53;58;120]]. split; [discriminate|]. split; [reflexivity|].
      constructor; [|constructor; [|constructor]]; apply rawq_okb_spec; vm_compute; reflexivity.
  - intros H. apply wf_actionqb_spec in H. vm_compute in H. discriminate.
  - vm_compute. split; reflexivity.
Qed.
Print Assumptions C02_uri_example.
