(* C15, --check and the DOCUMENTS.  C15_check leaves two links as hypotheses
   (diff_formatter_renders, old_formatter_nonempty) and refers to C03 for
   "documents differ iff the script is non-empty".  Here they are composed, in
   the model:

   C15_diff_formatter_empty   DiffFormatter (XV.TextFormat.format over the generated tables)
                              prints the empty text exactly for the empty script;
   C15_old_formatter_empty    so does the 'old' formatter (XV.OldFormat.old_format, C18's
                              model) whenever it does not raise: every handler yields at
                              least one bracketed, non-empty entry -- this is C15_check's
                              hypothesis old_formatter_nonempty;
   C15_check_docs             for every argv the parser accepts with --check: let d be the
                              deciding call (C15_check: made with DiffFormatter or
                              XmlDiffFormatter on the same files, options and normalize as the
                              printed one).  Let L, R (with roots and root namespace maps) be
                              the two documents d's files parse to and o the Differ options --
                              ANY documents and ANY option record o, in particular the one the
                              plumbing computes (C15_plumbing) --, script the edit script of
                              XV.Pipeline.diff_model (Differ.match + Differ.diff, similarity
                              oracle with the laws "not (F <= 0)", "0 != 1.0"), gs its rendering
                              as namedtuples (XV.Render), and let the string api d that
                              diff_files returns be the formatter's model applied to gs (the two
                              hypotheses: TextFormat.format resp. OldFormat.old_format; they
                              include that the formatter does not raise).  Then
                                - exit status 1 iff the script is non-empty, 0 (None) iff empty;
                                - documents that are NOT equal (doc_equiv: tree_equivb of the two
                                  documents with the ignored attributes filtered out: tags,
                                  attribute sets and values, texts, tails, comments, child order)
                                  give exit status 1;  exit status 0 implies equal documents (C03
                                  converse);
                                - equal documents (same_doc_upto, C03/C13's notion: same pre-order
                                  ids, child lists, tags, texts, tails, non-ignored attributes up to
                                  order; same roots and namespace maps; C03's oracle laws) give
                                  exit status 0 (C03 forward, C13).
   C15_check_iff              hence, on pairs of documents that are either equal in that sense or
                              not equivalent (everything the front end produces: both trees are
                              numbered in pre-order and lxml never yields an empty text), the
                              exit status is 1 iff the documents differ, and 0 iff they are equal
                              -- for every formatter (-f diff, -f old, -f xml).
   Proofs: XV.ComposeProofs (check_status_docs, check_status_iff, old_format_empty_iff),
   XV.CliProofs, XV.PipelineProofs, XV.EqualDocs. *)
From Coq Require Import List NArith ZArith Bool Arith String.
Import ListNotations.
Require Import XV.Str XV.TextFormat XV.Cli XV.CliProofs.
Require Import XV.Gen.TextTables XV.Gen.Flags XV.Gen.CliPlumbing XV.Gen.EntryPoints.
Require Import XV.Forest XV.Matcher XV.Differ XV.Spec XV.WF XV.Path XV.Render XV.OldFormat
               XV.Pipeline XV.PipelineProofs XV.Compose XV.ComposeProofs.

Theorem C15_diff_formatter_empty : forall acts text,
  format tables acts = Ok text -> (text = [] <-> acts = []).
Proof. exact diff_text_empty_iff. Qed.
Print Assumptions C15_diff_formatter_empty.

Theorem C15_old_formatter_empty : forall pe f root nsm gs txt,
  old_format pe f root nsm gs = OOk txt -> (txt = [] <-> gs = []).
Proof. exact old_format_empty_iff. Qed.
Print Assumptions C15_old_formatter_empty.

Theorem C15_check_docs :
  forall (sim : Type) (sim_ltb sim_leb : sim -> sim -> bool) (sim_is_one : sim -> bool)
         (zero one : sim) (leaf_sim : str -> str -> sim) (combine : sim -> nat -> nat -> sim)
         (api : df_call -> str) argv ns c1 c2,
  parse_args (pctx_of flags cli) (ct_diff_opts cli) argv = PArgs ns ->
  diff_command_plan flags cli argv = PlanRun c1 true c2 ->
  let d := decisive c1 c2 in
  forall (o : mopts sim) (DL DR : forest) (rootL rootR : id) (lns rns : nsmap)
         (pe : penv) (nsm : list (option str * str)) (script : list iact) (W : forest) (gs : list gaction),
  sim_leb (oF sim o) zero = false -> sim_is_one zero = false ->
  wf_forest DL rootL -> wf_forest DR rootR ->
  diff_model sim sim_ltb sim_leb sim_is_one zero one leaf_sim combine o DL DR rootL rootR lns rns
    = Some (script, W) ->
  render_script pe rootL DL script = Some gs ->
  (call_class d = Some s_DiffFormatter -> format tables gs = Ok (api d)) ->
  (call_class d = Some s_XmlDiffFormatter -> old_format pe DL rootL nsm gs = OOk (api d)) ->
  exists res,
    diff_command_run flags cli api argv = Some res /\
    cr_stdout res = api c1 ++ [10%N] /\
    (cr_status res = Some 1%Z <-> script <> []) /\
    (cr_status res = None <-> script = []) /\
    (tree_equivb (tree_map_attrs (node_attribs_d (oignored sim o)) (to_tree (S (fnext DL)) DL rootL))
                 (tree_map_attrs (node_attribs_d (oignored sim o)) (to_tree (S (fnext DR)) DR rootR)) <> true ->
     cr_status res = Some 1%Z) /\
    (cr_status res = None ->
     tree_equivb (tree_map_attrs (node_attribs_d (oignored sim o)) (to_tree (S (fnext DL)) DL rootL))
                 (tree_map_attrs (node_attribs_d (oignored sim o)) (to_tree (S (fnext DR)) DR rootR)) = true) /\
    ((forall s, sim_is_one (leaf_sim s s) = true) ->
     (forall m n, sim_is_one m = true -> 0 < n -> sim_is_one (combine m n n) = true) ->
     sim_is_one one = true ->
     (forall x, sim_is_one x = true -> sim_ltb zero x = true) ->
     (forall x, sim_is_one x = true -> sim_leb (oF sim o) x = true) ->
     (ofast sim o = true ->
      forall s t n x n', 0 < n -> sim_leb (oF sim o) (combine (leaf_sim s t) 0 n) = true ->
                         sim_is_one x = true -> 0 < n' -> sim_leb (oF sim o) (combine x 0 n') = true) ->
     rootR = rootL -> rns = lns ->
     (forall k v, In (k, v) lns -> ns_get lns k = Some v) ->
     (* DR is DL up to ignored attributes and attribute order *)
     (fnext DL = fnext DR /\
      (forall n, n < fnext DL -> fkids DL n = fkids DR n) /\
      (forall n, n < fnext DL ->
         ltag (flab DL n) = ltag (flab DR n) /\ ltext (flab DL n) = ltext (flab DR n) /\
         ltail (flab DL n) = ltail (flab DR n) /\
         Permutation.Permutation (node_attribs_d (oignored sim o) (lattrs (flab DL n)))
                                 (node_attribs_d (oignored sim o) (lattrs (flab DR n))))) ->
     cr_status res = None).
Proof.
  intros sim sim_ltb sim_leb sim_is_one zero one leaf_sim combine api argv ns c1 c2 Hp Hplan d
         o DL DR rootL rootR lns rns pe nsm script W gs HF H1.
  exact (check_status_docs sim sim_ltb sim_leb sim_is_one zero one leaf_sim combine api argv ns c1 c2 Hp Hplan
           o DL DR rootL rootR lns rns pe nsm script W gs (conj HF H1)).
Qed.
Print Assumptions C15_check_docs.

Theorem C15_check_iff :
  forall (sim : Type) (sim_ltb sim_leb : sim -> sim -> bool) (sim_is_one : sim -> bool)
         (zero one : sim) (leaf_sim : str -> str -> sim) (combine : sim -> nat -> nat -> sim)
         (api : df_call -> str) argv ns c1 c2,
  parse_args (pctx_of flags cli) (ct_diff_opts cli) argv = PArgs ns ->
  diff_command_plan flags cli argv = PlanRun c1 true c2 ->
  let d := decisive c1 c2 in
  forall (o : mopts sim) (DL DR : forest) (root : id) (lns : nsmap)
         (pe : penv) (nsm : list (option str * str)) (script : list iact) (W : forest) (gs : list gaction),
  sim_leb (oF sim o) zero = false -> sim_is_one zero = false ->
  (forall s, sim_is_one (leaf_sim s s) = true) ->
  (forall m n, sim_is_one m = true -> 0 < n -> sim_is_one (combine m n n) = true) ->
  sim_is_one one = true ->
  (forall x, sim_is_one x = true -> sim_ltb zero x = true) ->
  (forall x, sim_is_one x = true -> sim_leb (oF sim o) x = true) ->
  (ofast sim o = true ->
   forall s t n x n', 0 < n -> sim_leb (oF sim o) (combine (leaf_sim s t) 0 n) = true ->
                      sim_is_one x = true -> 0 < n' -> sim_leb (oF sim o) (combine x 0 n') = true) ->
  wf_forest DL root -> wf_forest DR root ->
  (forall k v, In (k, v) lns -> ns_get lns k = Some v) ->
  (* the domain: equal in the sense of C03/C13, or not equivalent *)
  same_doc_upto (oignored sim o) DL DR \/ ~ doc_equiv (oignored sim o) DL root DR root ->
  diff_model sim sim_ltb sim_leb sim_is_one zero one leaf_sim combine o DL DR root root lns lns
    = Some (script, W) ->
  render_script pe root DL script = Some gs ->
  (call_class d = Some s_DiffFormatter -> format tables gs = Ok (api d)) ->
  (call_class d = Some s_XmlDiffFormatter -> old_format pe DL root nsm gs = OOk (api d)) ->
  exists res,
    diff_command_run flags cli api argv = Some res /\
    cr_stdout res = api c1 ++ [10%N] /\
    (cr_status res = Some 1%Z <-> ~ doc_equiv (oignored sim o) DL root DR root) /\
    (cr_status res = None <-> doc_equiv (oignored sim o) DL root DR root).
Proof.
  intros sim sim_ltb sim_leb sim_is_one zero one leaf_sim combine api argv ns c1 c2 Hp Hplan d
         o DL DR root lns pe nsm script W gs HF H1.
  exact (check_status_iff sim sim_ltb sim_leb sim_is_one zero one leaf_sim combine api argv ns c1 c2 Hp Hplan
           o DL DR root lns pe nsm script W gs (conj HF H1)).
Qed.
Print Assumptions C15_check_iff.

(* Non-vacuity: xmldiff --check a b, documents <r><a k="1"/></r> and <r><a k="2"/></r>
   (they differ: UpdateAttrib), then the first against itself.  The parser accepts
   the argv, the plan is a single DiffFormatter call with --check, the DiffFormatter
   link holds by computation for api := the formatted text, and the model run
   prints the text and exits with 1, resp. prints the empty line and exits with 0. *)
Example C15_check_docs_example :
  let argv := [L "--check"%string; L "a"%string; L "b"%string] in
  let mk := fun v => mk_forest [(0, [1])]
              [(0, Lab (TElem [114%N]) [] None None);
               (1, Lab (TElem [97%N]) [([107%N], [v])] None None)] 2 in
  let leaf := fun a b : str => if str_eqb a b then 100 else 60 in
  let comb := fun m c n : nat => if Nat.ltb 0 n && Nat.eqb c n then m else m * 70 / 100 in
  let is_one := fun x => Nat.eqb x 100 in
  let o := MOpts nat 50 [] false false [] in
  let pe : penv := fun _ => None in
  let text_of := fun DR =>
    match diff_model nat Nat.ltb Nat.leb is_one 0 100 leaf comb o (mk 49%N) DR 0 0 [] [] with
    | Some (script, _) => match render_script pe 0 (mk 49%N) script with
                          | Some gs => match format tables gs with Ok t => Some t | Err _ => None end
                          | None => None
                          end
    | None => None
    end in
  (exists ns, parse_args (pctx_of flags cli) (ct_diff_opts cli) argv = PArgs ns) /\
  (exists c1, diff_command_plan flags cli argv = PlanRun c1 true None /\ call_class c1 = Some s_DiffFormatter) /\
  text_of (mk 50%N) = Some [91;117;112;100;97;116;101;45;97;116;116;114;105;98;117;116;101;44;32;
                            47;114;47;97;91;49;93;44;32;107;44;32;34;50;34;93]%N /\
  text_of (mk 49%N) = Some [] /\
  tree_equivb (doc_tree (mk 49%N) 0) (doc_tree (mk 50%N) 0) = false /\
  (forall t, text_of (mk 50%N) = Some t ->
     option_map cr_status (diff_command_run flags cli (fun _ => t) argv) = Some (Some 1%Z)) /\
  (forall t, text_of (mk 49%N) = Some t ->
     option_map cr_status (diff_command_run flags cli (fun _ => t) argv) = Some None).
Proof.
  cbv zeta.
  split; [eexists; vm_compute; reflexivity|].
  split; [eexists; split; vm_compute; reflexivity|].
  split; [vm_compute; reflexivity|]. split; [vm_compute; reflexivity|]. split; [vm_compute; reflexivity|].
  split; intros t E; vm_compute in E; injection E as <-; vm_compute; reflexivity.
Qed.
Print Assumptions C15_check_docs_example.
