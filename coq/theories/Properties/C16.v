(* C16 -- placeholder until the proofs land; see DMP*.v *)
From Coq Require Import List ZArith.
Require Import XV.DMP.
