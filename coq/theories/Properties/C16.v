(* C16 -- the character-level text diff preserves both texts.

   Model: XV.DMP (diff_match_patch.diff_main / diff_cleanupSemantic with everything they call, and
   XMLFormatter._realign_placeholders / _join_delete_insert).  [t1 d] is the text given by the
   equal+delete segments of a diff, [t2 d] the text given by its equal+insert segments.
   [cc] is the classification of characters by str.isalnum/str.isspace (it only steers the cosmetic
   scoring), [clock] answers the successive tests `time.time() > deadline` of diff_bisect. *)
From Coq Require Import List ZArith NArith.
Import ListNotations.
Require Import XV.DMP XV.DMPCommon XV.DMPMain XV.DMPSemantic XV.DMPRealign
               XV.DMPTotal XV.DMPTotalMerge XV.DMPTotalSem XV.DMPTotalMain.

(* diff_main: for every clock and all strings, both strings are reconstructed and no segment is empty *)
Theorem C16_main : forall cc clock a b d, diff_main cc clock a b = Ok d ->
  t1 d = a /\ t2 d = b /\ Forall (fun s => snd s <> []) d.
Proof. exact diff_main_spec. Qed.
Print Assumptions C16_main.

(* diff_cleanupSemantic: for EVERY segment list (well-formed or not) both texts are kept and the
   result has no empty segment *)
Theorem C16_semantic : forall cc d d', diff_cleanupSemantic cc d = Ok d' ->
  t1 d' = t1 d /\ t2 d' = t2 d /\ Forall (fun s => snd s <> []) d'.
Proof. exact cleanupSemantic_t12. Qed.
Print Assumptions C16_semantic.

(* diff_cleanupMerge (used by both): both texts are kept; no empty segment is introduced *)
Theorem C16_merge : forall d d', cleanupMerge d = Ok d' ->
  t1 d' = t1 d /\ t2 d' = t2 d /\ (Forall (fun s => snd s <> []) d -> Forall (fun s => snd s <> []) d').
Proof. exact cleanupMerge_t12. Qed.
Print Assumptions C16_merge.

(* _realign_placeholders: apart from CLOSE placeholders (which it may drop, move and add) both texts
   are kept, character for character and in order -- in particular OPEN placeholders stay where they
   are; and it produces no empty segment.  [wf_cls]: the close_ph of an OPEN entry of the placeholder
   table is itself registered as a CLOSE placeholder (PlaceholderMaker.get_placeholder guarantees it). *)
Theorem C16_realign : forall cls d d', wf_cls cls -> realign cls d = Ok d' ->
  erase_close cls (t1 d') = erase_close cls (t1 d) /\
  erase_close cls (t2 d') = erase_close cls (t2 d) /\
  Forall (fun s => snd s <> []) d'.
Proof. exact realign_spec. Qed.
Print Assumptions C16_realign.

(* the statement with OPEN and CLOSE placeholders erased (weaker) *)
Theorem C16_realign_oc : forall cls d d', wf_cls cls -> realign cls d = Ok d' ->
  erase_oc cls (t1 d') = erase_oc cls (t1 d) /\ erase_oc cls (t2 d') = erase_oc cls (t2 d).
Proof. exact realign_spec_oc. Qed.
Print Assumptions C16_realign_oc.

(* _join_delete_insert: REPLACE(new, old) is old on the t1 side and new on the t2 side *)
Theorem C16_join : forall d j, join_delete_insert d = Ok j -> jt1 j = t1 d /\ jt2 j = t2 d.
Proof. exact join_spec. Qed.
Print Assumptions C16_join.

(* ---- totality: no index error, no loop or recursion runs out of fuel ---- *)

(* diff_cleanupMerge and diff_cleanupSemantic return for EVERY segment list *)
Theorem C16_no_error_merge : forall d, exists d', cleanupMerge d = Ok d'.
Proof. exact cleanupMerge_total. Qed.
Print Assumptions C16_no_error_merge.

Theorem C16_no_error_semantic : forall cc d, exists d', diff_cleanupSemantic cc d = Ok d'.
Proof. exact cleanupSemantic_total. Qed.
Print Assumptions C16_no_error_semantic.

(* _join_delete_insert (as repaired) never raises; _realign_placeholders can (its assert) *)
Theorem C16_no_error_join : forall d, exists j, join_delete_insert d = Ok j.
Proof. exact join_total. Qed.
Print Assumptions C16_no_error_join.

(* diff_main returns for all clocks and strings PROVIDED diff_bisect's middle-snake search does.
   [bisect_safe] (XV.DMPTotalMain) says: on texts of length >= 2 whose first characters differ, whose
   last characters differ and neither of which contains the other -- all that diff_compute passes to
   diff_bisect -- [bisect_core] returns Ok, and a split point (x, y) it reports satisfies
   0 <= x <= len text1, 0 <= y <= len text2 and 0 < x + y < len text1 + len text2.
   Everything else is proved: the binary searches, diff_commonOverlap, diff_halfMatch, the line
   encoding, diff_lineMode's re-diff loop, diff_cleanupMerge (including its self-recursion),
   diff_cleanupSemantic, and that [main_fuel] bounds the nesting depth of diff_main.
   MISSING for the unconditional C16_no_error: a proof of [bisect_safe], i.e. of the invariants of
   Myers' algorithm as trimmed by k1start/k1end/k2start/k2end (entries of v1/v2 that are read have
   been written and lie in the grid; an overlap is never detected at a corner of the grid when
   neither text contains the other).  The correspondence check compares model and implementation on
   every run and reports any case where the model returns an error. *)
Theorem C16_no_error_partial : bisect_safe -> forall cc clock a b, exists d, diff_main cc clock a b = Ok d.
Proof. intros H cc clock a b. exact (diff_main_total cc clock a b H). Qed.
Print Assumptions C16_no_error_partial.

(* [bisect_safe] holds (XV.DMPBisect1 .. XV.DMPBisect5: the invariants of the two halves of the
   middle-snake search as trimmed by k1start/k1end/k2start/k2end, and their interplay), so
   diff_main returns for ALL clocks and ALL strings: no index error, and no loop or recursion of
   the model runs out of fuel. *)
Require Import XV.DMPBisect5.
Theorem C16_no_error : forall cc clock a b, exists d, diff_main cc clock a b = Ok d.
Proof. exact (C16_no_error_partial bisect_safe_holds). Qed.
Print Assumptions C16_no_error.
