(* C13 -- theorems land here *)
Require Import XV.Differ XV.Spec.
