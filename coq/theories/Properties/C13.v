(* C13 -- "Ignored attributes are invisible to the diff: with a list of ignored
   attributes, two documents that differ only in those attributes produce an
   empty edit script, no action of any script ever names an ignored attribute,
   and applying the script to the left document yields the right document up to
   the ignored attributes."

   Models: XV.Pipeline.diff_model (Differ.match + Differ.diff, similarity
   oracle), the option record o carries ignored_attrs (oignored o);
   XV.Spec.run_spec: the documented meaning of the actions.
   node_attribs_d ign l = filter (fun kv => negb (smem (fst kv) ign)) l
   is Differ.node_attribs: the attribute list l without the names in ign.

   - C13_empty.  Hypotheses: the oracle laws of C03 (ratio(s,s) == 1.0, ...; the
     last two only when fast_match is set), L well-formed, every binding of the
     namespace map found under its own prefix, and R EQUAL TO L UP TO THE IGNORED
     ATTRIBUTES: same ids (both trees are numbered in pre-order), same child
     lists, tags, texts, tails, and for every node the attribute lists WITHOUT
     the ignored names are permutations of each other.  (The ignored attributes
     themselves may differ arbitrarily: other values, present on one side only,
     even repeated.)  Conclusion: the script is empty and the working tree is L.
   - C13_no_mention: for EVERY pair of forests (no well-formedness needed), every
     option record and every result of diff_model, no action of the script names
     an ignored attribute: the name of UpdateAttrib / InsertAttrib / DeleteAttrib
     and both names of RenameAttrib are outside oignored o.
     C13_no_mention_every_matching: the same for the differ on ANY matching.
   - C13_roundtrip: under the hypotheses of C01, replaying the script on L
     succeeds and yields a tree W which is the right document once the ignored
     attributes are filtered out of both (tree_equivb: same tags, remaining
     attribute sets and values, texts, tails, comments, child order).
   - C13_right_invisible: the attributes of the right document influence the
     result only through their non-ignored part: replacing the attribute list of
     every right node n by any list g n with the same non-ignored part
     (relab R g) changes neither the script nor the final tree.  No hypothesis.
   Proofs: XV.PipelineProofs (attr_run_keys_ok, gen_script_attr_acts_ok,
   diff_model_relab, ignored_only_empty_script), XV.EqualDocs, XV.DifferSound. *)
From Coq Require Import List NArith ZArith Bool Arith Lia Sorting.Permutation.
Import ListNotations.
Require Import XV.Str XV.Forest XV.Matcher XV.Differ XV.Spec XV.WF XV.EqualDocs
               XV.Pipeline XV.PipelineProofs.

Theorem C13_empty :
  forall (sim : Type) (sim_ltb sim_leb : sim -> sim -> bool) (sim_is_one : sim -> bool)
         (zero one : sim) (leaf_sim : str -> str -> sim) (combine : sim -> nat -> nat -> sim)
         (o : mopts sim) (L R : forest) (root : id) (lns : nsmap),
  (* oracle laws, as in C03 *)
  (forall s, sim_is_one (leaf_sim s s) = true) ->
  (forall m n, sim_is_one m = true -> 0 < n -> sim_is_one (combine m n n) = true) ->
  sim_is_one one = true ->
  (forall x, sim_is_one x = true -> sim_ltb zero x = true) ->
  (forall x, sim_is_one x = true -> sim_leb (oF sim o) x = true) ->
  (ofast sim o = true -> sim_leb (oF sim o) zero = false) ->
  (ofast sim o = true ->
   forall s t n x n', 0 < n -> sim_leb (oF sim o) (combine (leaf_sim s t) 0 n) = true ->
                      sim_is_one x = true -> 0 < n' ->
                      sim_leb (oF sim o) (combine x 0 n') = true) ->
  wf_forest L root ->
  (* R differs from L only in ignored attributes (and attribute order) *)
  (fnext L = fnext R /\
   (forall n, n < fnext L -> fkids L n = fkids R n) /\
   (forall n, n < fnext L ->
      ltag (flab L n) = ltag (flab R n) /\ ltext (flab L n) = ltext (flab R n) /\
      ltail (flab L n) = ltail (flab R n) /\
      Permutation (filter (fun kv => negb (smem (fst kv) (oignored sim o))) (lattrs (flab L n)))
                  (filter (fun kv => negb (smem (fst kv) (oignored sim o))) (lattrs (flab R n))))) ->
  (forall k v, In (k, v) lns -> ns_get lns k = Some v) ->
  diff_model sim sim_ltb sim_leb sim_is_one zero one leaf_sim combine o L R root root lns lns
  = Some ([], L).
Proof. exact ignored_only_empty_script. Qed.
Print Assumptions C13_empty.

Theorem C13_no_mention :
  forall (sim : Type) (sim_ltb sim_leb : sim -> sim -> bool) (sim_is_one : sim -> bool)
         (zero one : sim) (leaf_sim : str -> str -> sim) (combine : sim -> nat -> nat -> sim)
         (o : mopts sim) (L R : forest) (rootL rootR : id) (lns rns : nsmap)
         (script : list iact) (W : forest),
  diff_model sim sim_ltb sim_leb sim_is_one zero one leaf_sim combine o L R rootL rootR lns rns
    = Some (script, W) ->
  forall a, In a script ->
  match a with
  | IUpdAttr _ k _ | IInsAttr _ k _ | IDelAttr _ k => ~ In k (oignored sim o)
  | IRenAttr _ k k' => ~ In k (oignored sim o) /\ ~ In k' (oignored sim o)
  | _ => True
  end.
Proof.
  intros sim sim_ltb sim_leb sim_is_one zero one leaf_sim combine o L R rootL rootR lns rns script W Hd.
  apply Forall_forall.
  exact (diff_model_attr_acts_ok sim sim_ltb sim_leb sim_is_one zero one leaf_sim combine
           o L R rootL rootR lns rns script W Hd).
Qed.
Print Assumptions C13_no_mention.

Theorem C13_no_mention_every_matching :
  forall (ignored : list str) (L R : forest) (rootL rootR : id) (m : list (id * id)) (a : iact),
  In a (out (gen_script ignored R rootR L rootL m)) ->
  match a with
  | IUpdAttr _ k _ | IInsAttr _ k _ | IDelAttr _ k => ~ In k ignored
  | IRenAttr _ k k' => ~ In k ignored /\ ~ In k' ignored
  | _ => True
  end.
Proof.
  intros ignored L R rootL rootR m. apply Forall_forall.
  exact (gen_script_attr_acts_ok ignored R rootR L rootL m).
Qed.
Print Assumptions C13_no_mention_every_matching.

Theorem C13_roundtrip :
  forall (sim : Type) (sim_ltb sim_leb : sim -> sim -> bool) (sim_is_one : sim -> bool)
         (zero one : sim) (leaf_sim : str -> str -> sim) (combine : sim -> nat -> nat -> sim)
         (o : mopts sim) (L R : forest) (rootL rootR : id) (lns rns : nsmap),
  sim_leb (oF sim o) zero = false -> sim_is_one zero = false ->
  wf_forest L rootL -> wf_forest R rootR ->
  ns_prologue lns rns <> None ->
  exists script W,
    diff_model sim sim_ltb sim_leb sim_is_one zero one leaf_sim combine o L R rootL rootR lns rns
      = Some (script, W)
    /\ run_spec rootL L script = Some W
    /\ let drop_ignored := filter (fun kv : str * str => negb (smem (fst kv) (oignored sim o))) in
       tree_equivb (tree_map_attrs drop_ignored (to_tree (S (fnext W)) W rootL))
                   (tree_map_attrs drop_ignored (to_tree (S (fnext R)) R rootR)) = true.
Proof.
  intros sim sim_ltb sim_leb sim_is_one zero one leaf_sim combine o L R rootL rootR lns rns HF H1.
  apply diff_model_sound. split; assumption.
Qed.
Print Assumptions C13_roundtrip.

Theorem C13_right_invisible :
  forall (sim : Type) (sim_ltb sim_leb : sim -> sim -> bool) (sim_is_one : sim -> bool)
         (zero one : sim) (leaf_sim : str -> str -> sim) (combine : sim -> nat -> nat -> sim)
         (o : mopts sim) (L R : forest) (g : id -> list (str * str)) (rootL rootR : id) (lns rns : nsmap),
  (forall n, filter (fun kv => negb (smem (fst kv) (oignored sim o))) (g n)
             = filter (fun kv => negb (smem (fst kv) (oignored sim o))) (lattrs (flab R n))) ->
  let R' := Forest (fkids R)
                   (fun n => Lab (ltag (flab R n)) (g n) (ltext (flab R n)) (ltail (flab R n)))
                   (fnext R) in
  diff_model sim sim_ltb sim_leb sim_is_one zero one leaf_sim combine o L R' rootL rootR lns rns
  = diff_model sim sim_ltb sim_leb sim_is_one zero one leaf_sim combine o L R rootL rootR lns rns.
Proof. exact diff_model_relab. Qed.
Print Assumptions C13_right_invisible.

(* Non-vacuity, with the nat-valued oracle of C03
   (EqualDocs.ex_leaf / ex_comb, percent).
   (1) L = <r><a k="1" i="7" m="3">x</a><b i="1"/></r> against
       R = <r><a m="3" k="1">x</a><b i="2" i2="0"/></r> with ignored = ["i"; "i2"]:
       they differ only in ignored attributes (and attribute order); the
       hypotheses of C13_empty hold and the script computes to [].
   (2) the example of C01 (ignored = ["i"], i="7" against i="8", k="1" against
       k="2"): the script updates k and never names i; replaying it gives R up to i. *)
Example C13_example :
  let ign := [[105%N]; [105%N; 50%N]] in
  let L := mk_forest [(0, [1; 2])]
            [(0, Lab (TElem [114%N]) [] None None);
             (1, Lab (TElem [97%N]) [([107%N], [49%N]); ([105%N], [55%N]); ([109%N], [51%N])] (Some [120%N]) None);
             (2, Lab (TElem [98%N]) [([105%N], [49%N])] None None)] 3 in
  let R := mk_forest [(0, [1; 2])]
            [(0, Lab (TElem [114%N]) [] None None);
             (1, Lab (TElem [97%N]) [([109%N], [51%N]); ([107%N], [49%N])] (Some [120%N]) None);
             (2, Lab (TElem [98%N]) [([105%N], [50%N]); ([105%N; 50%N], [48%N])] None None)] 3 in
  let is_one := fun x => Nat.eqb x 100 in
  let o := MOpts nat 50 [] false false ign in
  (* (1) hypotheses of C13_empty *)
  ((forall s, is_one (ex_leaf s s) = true) /\
   (forall m n, is_one m = true -> 0 < n -> is_one (ex_comb m n n) = true) /\
   is_one 100 = true /\
   (forall x, is_one x = true -> Nat.ltb 0 x = true) /\
   (forall x, is_one x = true -> Nat.leb (oF nat o) x = true) /\
   (ofast nat o = true -> Nat.leb (oF nat o) 0 = false) /\
   (ofast nat o = true ->
    forall s t n x n', 0 < n -> Nat.leb (oF nat o) (ex_comb (ex_leaf s t) 0 n) = true ->
                       is_one x = true -> 0 < n' -> Nat.leb (oF nat o) (ex_comb x 0 n') = true)) /\
  wf_forest L 0 /\
  (fnext L = fnext R /\
   (forall n, n < fnext L -> fkids L n = fkids R n) /\
   (forall n, n < fnext L ->
      ltag (flab L n) = ltag (flab R n) /\ ltext (flab L n) = ltext (flab R n) /\
      ltail (flab L n) = ltail (flab R n) /\
      Permutation (filter (fun kv => negb (smem (fst kv) ign)) (lattrs (flab L n)))
                  (filter (fun kv => negb (smem (fst kv) ign)) (lattrs (flab R n))))) /\
  (forall k v, In (k, v) ex_lns -> ns_get ex_lns k = Some v) /\
  (* its conclusion computes; and the documents do differ *)
  option_map fst (diff_model nat Nat.ltb Nat.leb is_one 0 100 ex_leaf ex_comb o L R 0 0 ex_lns ex_lns) = Some [] /\
  tree_equivb (doc_tree L 0) (doc_tree R 0) = false /\
  (* (2) a non-empty script that does not name the ignored attribute *)
  (let L2 := mk_forest [(0, [1; 2])]
            [(0, Lab (TElem [114%N]) [] None None);
             (1, Lab (TElem [97%N]) [([107%N], [49%N]); ([105%N], [55%N])] (Some [120%N]) None);
             (2, Lab (TElem [98%N]) [] None None)] 3 in
   let R2 := mk_forest [(0, [1; 2; 3])]
            [(0, Lab (TElem [114%N]) [] None None);
             (1, Lab (TElem [98%N]) [] None None);
             (2, Lab (TElem [97%N]) [([107%N], [50%N]); ([105%N], [56%N])] (Some [121%N]) None);
             (3, Lab TComment [] (Some [99%N]) (Some [116%N]))] 4 in
   let leaf := fun a b : str => if str_eqb a b then 100 else
               match a, b with x :: _, y :: _ => if N.eqb x y then 60 else 10 | _, _ => 10 end in
   option_map fst (diff_model nat Nat.ltb Nat.leb is_one 0 100 leaf ex_comb
                              (MOpts nat 50 [] false false [[105%N]]) L2 R2 0 0 [] [])
   = Some [IMove 1 0 1; IUpdAttr 1 [107%N] [50%N]; IText 1 (Some [121%N]);
           IInsertComment 0 2 (Some [99%N]) 3; ITail 3 (Some [116%N])]).
Proof.
  cbv zeta.
  split; [exact (ex_laws 50 false (or_introl eq_refl))|].
  split; [apply wf_forestb_sound; vm_compute; reflexivity|].
  split.
  { split; [reflexivity|]. split.
    - intros n Hn. do 3 (destruct n as [|n]; [reflexivity|]). cbn in Hn. lia.
    - intros n Hn. destruct n as [|n]; [repeat split; vm_compute; constructor|].
      destruct n as [|n]; [repeat split; vm_compute; apply perm_swap|].
      destruct n as [|n]; [repeat split; vm_compute; constructor|]. cbn in Hn. lia. }
  split; [exact ex_ns|].
  split; [vm_compute; reflexivity|]. split; vm_compute; reflexivity.
Qed.
Print Assumptions C13_example.
