(* C17 -- "Every action other than a namespace action changes the document when
   applied, and no node created by the script is later deleted by it.  The
   script is bounded: at most |R| inserts, |L| deletes, 2|R| moves, |R| renames,
   |R| text and |R| tail updates, and no more attribute actions than there are
   attributes in the two documents together."

   Models: XV.Pipeline.diff_model (Differ.match + Differ.diff, similarity
   oracle); XV.Spec.spec_apply, the documented meaning of the actions;
   XV.Spec.same_doc root f g (boolean): f and g have the same list of document
   nodes (pre-order, with identities), and every document node has the same
   child list and the same label (tag, attribute LIST, text, tail -- compared
   exactly: None and "" differ) in both.  An action CHANGES the document when
   same_doc of the trees before and after it is false.
   |X| = doc_size X root = number of nodes of the document (comments included);
   attr_total X root = total number of attributes of its nodes;
   cnt p script = number of actions of the script in class p:
     is_ins (InsertNode, InsertComment), is_del (DeleteNode), is_move (MoveNode),
     is_ren (RenameNode), is_text (UpdateTextIn), is_tail (UpdateTextAfter),
     is_attr (UpdateAttrib, InsertAttrib, DeleteAttrib, RenameAttrib);
   created a = Some n when a is an insert action allocating node n.
   Hypotheses as in C01 (oracle laws "not (F <= 0)" and "0 != 1.0", well-formed
   documents, consistent namespace maps).

   - C17_effective: for every split script = pre ++ a :: post and the tree f
     reached after pre, a is applicable and is a namespace action or changes the
     document.
   - C17_created_not_deleted, C17_bounds.
   - the _every_matching versions: the same for the differ run on EVERY valid
     matching (all matcher options at once).
   Proofs: XV.DifferEff, XV.DifferCount, XV.PipelineProofs. *)
From Coq Require Import List NArith ZArith Bool Arith.
Import ListNotations.
Require Import XV.Str XV.Forest XV.Matcher XV.Differ XV.Spec XV.WF XV.DifferFrame XV.DifferSound XV.DifferEff
               XV.DifferCounters XV.DifferCount XV.Pipeline XV.PipelineProofs.

Theorem C17_effective :
  forall (sim : Type) (sim_ltb sim_leb : sim -> sim -> bool) (sim_is_one : sim -> bool)
         (zero one : sim) (leaf_sim : str -> str -> sim) (combine : sim -> nat -> nat -> sim)
         (o : mopts sim) (L R : forest) (rootL rootR : id) (lns rns : nsmap),
  sim_leb (oF sim o) zero = false -> sim_is_one zero = false ->
  wf_forest L rootL -> wf_forest R rootR ->
  ns_prologue lns rns <> None ->
  exists script W,
    diff_model sim sim_ltb sim_leb sim_is_one zero one leaf_sim combine o L R rootL rootR lns rns
      = Some (script, W)
    /\ run_spec rootL L script = Some W
    /\ forall pre a post f,
         script = pre ++ a :: post -> run_spec rootL L pre = Some f ->
         exists f', spec_apply rootL f a = Some f' /\
                    (is_ns_action a = true \/ Spec.same_doc rootL f f' = false).
Proof.
  intros sim sim_ltb sim_leb sim_is_one zero one leaf_sim combine o L R rootL rootR lns rns HF H1 HL HR Hns.
  destruct (diff_model_checked sim sim_ltb sim_leb sim_is_one zero one leaf_sim combine
              o L R rootL rootR lns rns (conj HF H1) HL HR Hns) as (script & W & E1 & E2).
  exists script, W. split; [exact E1|]. split; [apply run_checked_spec; exact E2|].
  exact (run_checked_clauses rootL L script W E2).
Qed.
Print Assumptions C17_effective.

Theorem C17_created_not_deleted :
  forall (sim : Type) (sim_ltb sim_leb : sim -> sim -> bool) (sim_is_one : sim -> bool)
         (zero one : sim) (leaf_sim : str -> str -> sim) (combine : sim -> nat -> nat -> sim)
         (o : mopts sim) (L R : forest) (rootL rootR : id) (lns rns : nsmap),
  sim_leb (oF sim o) zero = false -> sim_is_one zero = false ->
  wf_forest L rootL -> wf_forest R rootR ->
  ns_prologue lns rns <> None ->
  exists script W,
    diff_model sim sim_ltb sim_leb sim_is_one zero one leaf_sim combine o L R rootL rootR lns rns
      = Some (script, W)
    /\ forall pre a post n,
         script = pre ++ a :: post ->
         (match a with IInsert _ _ _ x | IInsertComment _ _ _ x => Some x | _ => None end) = Some n ->
         ~ In (IDelete n) post.
Proof.
  intros sim sim_ltb sim_leb sim_is_one zero one leaf_sim combine o L R rootL rootR lns rns HF H1.
  apply diff_model_created_not_deleted. split; assumption.
Qed.
Print Assumptions C17_created_not_deleted.

Theorem C17_bounds :
  forall (sim : Type) (sim_ltb sim_leb : sim -> sim -> bool) (sim_is_one : sim -> bool)
         (zero one : sim) (leaf_sim : str -> str -> sim) (combine : sim -> nat -> nat -> sim)
         (o : mopts sim) (L R : forest) (rootL rootR : id) (lns rns : nsmap),
  sim_leb (oF sim o) zero = false -> sim_is_one zero = false ->
  wf_forest L rootL -> wf_forest R rootR ->
  ns_prologue lns rns <> None ->
  exists script W,
    diff_model sim sim_ltb sim_leb sim_is_one zero one leaf_sim combine o L R rootL rootR lns rns
      = Some (script, W) /\
    let count := fun p => length (filter p script) in
    let sizeL := length (doc_nodes L rootL) in
    let sizeR := length (doc_nodes R rootR) in
    count is_ins <= sizeR /\
    count is_del <= sizeL /\
    count is_move <= 2 * sizeR /\
    count is_ren <= sizeR /\
    count is_text <= sizeR /\
    count is_tail <= sizeR /\
    count is_attr <= attr_total L rootL + attr_total R rootR.
Proof.
  intros sim sim_ltb sim_leb sim_is_one zero one leaf_sim combine o L R rootL rootR lns rns HF H1.
  apply diff_model_counts. split; assumption.
Qed.
Print Assumptions C17_bounds.

Theorem C17_every_matching :
  forall (ignored : list str) (L R : forest) (rootL rootR : id) (m : list (id * id)),
  wf_forest L rootL -> wf_forest R rootR -> valid_matching L R rootL rootR m ->
  let s := gen_script ignored R rootR L rootL m in
  (* effective: run_checked is run_spec which moreover refuses an action that is
     neither a namespace action nor changes the document *)
  run_checked rootL L (out s) = Some (W s) /\
  (forall pre a post f,
     out s = pre ++ a :: post -> run_spec rootL L pre = Some f ->
     exists f', spec_apply rootL f a = Some f' /\
                (is_ns_action a = true \/ Spec.same_doc rootL f f' = false)) /\
  (* created, hence not deleted *)
  (forall pre a post n, out s = pre ++ a :: post -> created a = Some n -> ~ In (IDelete n) post) /\
  (* bounds *)
  cnt is_ins (out s) <= doc_size R rootR /\
  cnt is_del (out s) <= doc_size L rootL /\
  cnt is_move (out s) <= 2 * doc_size R rootR /\
  cnt is_ren (out s) <= doc_size R rootR /\
  cnt is_text (out s) <= doc_size R rootR /\
  cnt is_tail (out s) <= doc_size R rootR /\
  cnt is_attr (out s) <= attr_total L rootL + attr_total R rootR.
Proof.
  intros ignored L R rootL rootR m HL HR Hvm s.
  pose proof (gen_script_effective ignored L R rootL rootR m HL HR Hvm) as E.
  split; [exact E|]. split; [exact (run_checked_clauses rootL L (out s) (W s) E)|].
  split; [exact (gen_script_created_not_deleted ignored L R rootL rootR m HL HR Hvm)|].
  exact (gen_script_counts ignored L R rootL rootR m HL HR Hvm).
Qed.
Print Assumptions C17_every_matching.

(* Non-vacuity: the example of C01.  |L| = 3, |R| = 4, 2 + 2 attributes; the
   script has 1 insert, 0 deletes, 1 move, 0 renames, 1 text, 1 tail, 1 attribute
   action; every action but the InsertNamespace changes the document
   (run_checked accepts the script), whereas a script with a redundant action (a
   text update to the value already there) is applicable but NOT effective. *)
Example C17_example :
  let L := mk_forest [(0, [1; 2])]
            [(0, Lab (TElem [114%N]) [] None None);
             (1, Lab (TElem [97%N]) [([107%N], [49%N]); ([105%N], [55%N])] (Some [120%N]) None);
             (2, Lab (TElem [98%N]) [] None None)] 3 in
  let R := mk_forest [(0, [1; 2; 3])]
            [(0, Lab (TElem [114%N]) [] None None);
             (1, Lab (TElem [98%N]) [] None None);
             (2, Lab (TElem [97%N]) [([107%N], [50%N]); ([105%N], [56%N])] (Some [121%N]) None);
             (3, Lab TComment [] (Some [99%N]) (Some [116%N]))] 4 in
  let leaf := fun a b : str => if str_eqb a b then 100 else
              match a, b with x :: _, y :: _ => if N.eqb x y then 60 else 10 | _, _ => 10 end in
  let comb := fun m c n : nat => if Nat.ltb 0 n && Nat.eqb c n then m else m * 70 / 100 in
  let is_one := fun x => Nat.eqb x 100 in
  let o := MOpts nat 50 [] false false [[105%N]] in
  let lns : nsmap := [(None, [117%N])] in
  let rns : nsmap := [(None, [117%N]); (Some [112%N], [118%N])] in
  let script := [IInsNs (Some [112%N]) [118%N]; IMove 1 0 1; IUpdAttr 1 [107%N] [50%N];
                 IText 1 (Some [121%N]); IInsertComment 0 2 (Some [99%N]) 3; ITail 3 (Some [116%N])] in
  Nat.leb (oF nat o) 0 = false /\ is_one 0 = false /\
  wf_forest L 0 /\ wf_forest R 0 /\ ns_prologue lns rns <> None /\
  option_map fst (diff_model nat Nat.ltb Nat.leb is_one 0 100 leaf comb o L R 0 0 lns rns) = Some script /\
  (match run_checked 0 L script with Some _ => true | None => false end) = true /\
  (doc_size L 0, doc_size R 0, attr_total L 0, attr_total R 0) = (3, 4, 2, 2) /\
  map (fun p => cnt p script) [is_ins; is_del; is_move; is_ren; is_text; is_tail; is_attr]
    = [1; 0; 1; 0; 1; 1; 1] /\
  (match run_spec 0 L [IText 1 (Some [120%N])] with Some _ => true | None => false end) = true /\
  run_checked 0 L [IText 1 (Some [120%N])] = None.
Proof.
  cbv zeta.
  split; [reflexivity|]. split; [reflexivity|].
  split; [apply wf_forestb_sound; vm_compute; reflexivity|].
  split; [apply wf_forestb_sound; vm_compute; reflexivity|].
  split; [vm_compute; discriminate|].
  repeat (split; [vm_compute; reflexivity|]). vm_compute. reflexivity.
Qed.
Print Assumptions C17_example.
