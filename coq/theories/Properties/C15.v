(* C15 -- command line and API entry points agree, and --check reports differences.

   Tables: XV.Gen.CliPlumbing (every argparse option of make_diff_parser /
   make_patch_parser, the diff_options dictionary, the normalize choice, the formatter
   construction, the --check logic, validate_F's comparisons, the two list parsers) and
   XV.Gen.EntryPoints (diff_texts / diff_files / _diff / diff_trees / patch_text /
   patch_file / patch_tree as sequences of named primitives) are regenerated from
   /repo/xmldiff/main.py by translator/xl_main.py (fail closed) on every run.  The
   interpreters are in XV.Cli: parse_args (a model of the part of CPython's argparse
   main.py uses), diff_command_plan / diff_command_run, api_diff_*, api_patch_*.
   lxml, argparse, the file system and the Differ are primitives: validated by the
   correspondence (harness/props/C15.py), not proved.

   C15_plumbing_tables  the checker plumbing_ok holds of the generated tables: every Differ
                        keyword F, ratio_mode, fast_match, best_match, uniqueattrs,
                        ignored_attrs is fed from the like-named option through validate_F /
                        identity / _parse_uniqueattrs / _parse_ignored_attrs; the formatter is
                        FORMATTERS[-f](normalize=.., pretty_print=-p); --fast-match and
                        --best-match exclude each other; the result of diff_files(file1, file2, ..)
                        is what is printed; the --check logic.
   C15_namespace        every Namespace the modelled parser produces for make_diff_parser binds
                        exactly the twelve dests, with typed values.
   C15_plumbing         for every argv the parser accepts, what diff_command does (which calls
                        to diff_files with which files, Differ options and formatter) is
                        spec_plan of the Namespace -- the plumbing as it should be, written
                        out by hand in XV.Cli.
   C15_entrypoints_tables, C15_entrypoints
                        diff_texts / diff_files are diff_trees of the two inputs parsed with
                        etree.fromstring / etree.parse and ONE parser whose remove_blank_text is
                        the C14 switch; diff_trees is prepare; Differ( **opts).diff; list | format;
                        patch_text / patch_file are tounicode . patch_tree . (parse, DiffParser().parse)
                        -- for all interpretations of the primitives.
   C15_prints           diff_command prints exactly the result of its (first) diff_files call,
                        and returns nothing when --check is absent.
   C15_check            with --check the exit status is 1 iff the edit script is non-empty,
                        nothing (0) otherwise, for every formatter.  Needs: the DiffFormatter
                        renders the script as XV.TextFormat.format (C02's model, hypothesis
                        diff_formatter_renders) and the 'old' formatter renders nothing exactly
                        for the empty script (hypothesis old_formatter_nonempty: each of its
                        handlers yields at least one non-empty line); for -f xml the script is the
                        one recomputed with DiffFormatter(normalize) on the same files and options.
                        "Documents differ iff the script is non-empty" is C03 (Properties/C03.v).
   C15_usage            an argparse error is exit status 2 with nothing printed on stdout.
   C15_parse_render_uniqueattrs, C15_parse_render_ignored_attrs
                        the list parsers invert the obvious rendering for names free of ',' / '@'.
   Proofs: XV.CliProofs. *)
From Coq Require Import List NArith ZArith Bool.
Require Import XV.Str XV.TextFormat XV.Cli XV.CliProofs.
Require Import XV.Gen.TextTables XV.Gen.Flags XV.Gen.CliPlumbing XV.Gen.EntryPoints.
Import ListNotations.
Local Open Scope N_scope.

Theorem C15_plumbing_tables : plumbing_ok cli = true.
Proof. vm_compute. reflexivity. Qed.
Print Assumptions C15_plumbing_tables.

Theorem C15_namespace : forall argv ns,
  parse_args (pctx_of flags cli) (ct_diff_opts cli) argv = PArgs ns ->
  exists chk fmt kw pp F ua rm fm bm ia f1 f2,
    ns = mk_ns chk fmt kw pp F ua rm fm bm ia f1 f2 /\
    ostr_val ua = true /\ ostr_val ia = true /\ smem fmt (map fst (ft_formatters flags)) = true.
Proof. exact diff_parse_args_shape. Qed.
Print Assumptions C15_namespace.

Theorem C15_plumbing : forall argv ns,
  parse_args (pctx_of flags cli) (ct_diff_opts cli) argv = PArgs ns ->
  diff_command_plan flags cli argv = spec_plan ns.
Proof. exact diff_command_plan_spec. Qed.
Print Assumptions C15_plumbing.

Theorem C15_entrypoints_tables : entrypoints_ok flags entry = true.
Proof. vm_compute. reflexivity. Qed.
Print Assumptions C15_entrypoints_tables.

Theorem C15_entrypoints :
  forall (src tree script optsT fmtT outT actionsT : Type) (P : prims src tree script optsT fmtT outT actionsT),
  (forall l r o f, api_diff_trees P entry l r o f = Some (spec_diff_trees P l r o f)) /\
  (forall l r o f, api_diff_texts P flags entry l r o f =
                   match spec_rb P flags f with
                   | Some rb => api_diff_trees P entry (p_fromstring P (Some rb) l) (p_fromstring P (Some rb) r) o f
                   | None => None
                   end) /\
  (forall l r o f, api_diff_files P flags entry l r o f =
                   match spec_rb P flags f with
                   | Some rb => api_diff_trees P entry (p_parse P (Some rb) l) (p_parse P (Some rb) r) o f
                   | None => None
                   end) /\
  (forall f, spec_rb P flags f =
             Some (negb (N.land (match f with
                                 | Some x => match p_norm_attr P x with Some v => v | None => 1 end
                                 | None => 1
                                 end) 1 =? 0))) /\
  (forall a t, api_patch_text P entry a t = Some (spec_patch P a (p_fromstring P None t))) /\
  (forall a t e, api_patch_file P entry a t e = Some (spec_patch P (p_read P a e) (p_parse P None t))).
Proof.
  intros src tree script optsT fmtT outT actionsT P.
  exact (conj (diff_trees_spec _ _ _ _ _ _ _ P) (conj (diff_texts_spec _ _ _ _ _ _ _ P) (conj (diff_files_spec _ _ _ _ _ _ _ P)
        (conj (spec_rb_flags _ _ _ _ _ _ _ P) (conj (patch_text_spec _ _ _ _ _ _ _ P) (patch_file_spec _ _ _ _ _ _ _ P)))))).
Qed.
Print Assumptions C15_entrypoints.

Theorem C15_prints : forall (api : df_call -> str) argv c1 c2,
  diff_command_plan flags cli argv = PlanRun c1 false c2 ->
  diff_command_run flags cli api argv = Some {| cr_stdout := api c1 ++ [10]; cr_status := None |}.
Proof. exact nocheck_exit_status. Qed.
Print Assumptions C15_prints.

Theorem C15_check :
  forall (api : df_call -> str) (script : df_call -> list gaction)
         (diff_formatter_renders : forall c, call_class c = Some s_DiffFormatter -> format tables (script c) = Ok (api c))
         (old_formatter_nonempty : forall c, call_class c = Some s_XmlDiffFormatter -> (api c = [] <-> script c = []))
         argv ns c1 c2,
    parse_args (pctx_of flags cli) (ct_diff_opts cli) argv = PArgs ns ->
    diff_command_plan flags cli argv = PlanRun c1 true c2 ->
    (exists res, diff_command_run flags cli api argv = Some res /\
                 cr_stdout res = api c1 ++ [10] /\
                 (cr_status res = Some 1%Z <-> script (decisive c1 c2) <> []) /\
                 (cr_status res = None <-> script (decisive c1 c2) = [])) /\
    (* the deciding call: a text formatter on the same files, options and normalize *)
    (call_class (decisive c1 c2) = Some s_DiffFormatter \/ call_class (decisive c1 c2) = Some s_XmlDiffFormatter) /\
    (call_class c1 = Some s_XMLFormatter <-> c2 <> None) /\
    c_callee (decisive c1 c2) = c_callee c1 /\ c_args (decisive c1 c2) = c_args c1 /\
    call_opts (decisive c1 c2) = call_opts c1 /\ call_normalize (decisive c1 c2) = call_normalize c1.
Proof.
  intros api script Hd Ho argv ns c1 c2 Hp Hplan.
  exact (conj (check_status_script api script Hd Ho argv ns c1 c2 Hp Hplan) (check_decisive_call argv ns c1 c2 Hp Hplan)).
Qed.
Print Assumptions C15_check.

Theorem C15_usage : forall (api : df_call -> str) argv,
  diff_command_plan flags cli argv = PlanUsage ->
  diff_command_run flags cli api argv = Some {| cr_stdout := []; cr_status := Some 2%Z |}.
Proof. exact usage_exit_status. Qed.
Print Assumptions C15_usage.

Theorem C15_parse_render_uniqueattrs : forall us,
  Forall uattr_clean us -> parse_uniqueattrs (render_uniqueattrs us) = us.
Proof. exact parse_render_uniqueattrs. Qed.
Print Assumptions C15_parse_render_uniqueattrs.

Theorem C15_parse_render_ignored_attrs : forall xs,
  Forall (free_of 44) xs -> parse_ignored_attrs (render_ignored_attrs xs) = xs.
Proof. exact parse_render_ignored_attrs. Qed.
Print Assumptions C15_parse_render_ignored_attrs.

(* ---------------------------------------------------------------------- *)
(* C15, --check and the DOCUMENTS.  C15_check leaves two links as hypotheses
   (diff_formatter_renders, old_formatter_nonempty) and refers to C03 for
   "documents differ iff the script is non-empty".  Here they are composed, in
   the model:

   C15_diff_formatter_empty   DiffFormatter (XV.TextFormat.format over the generated tables)
                              prints the empty text exactly for the empty script;
   C15_old_formatter_empty    so does the 'old' formatter (XV.OldFormat.old_format, C18's
                              model) whenever it does not raise: every handler yields at
                              least one bracketed, non-empty entry -- this is C15_check's
                              hypothesis old_formatter_nonempty;
   C15_check_docs             for every argv the parser accepts with --check: let d be the
                              deciding call (C15_check: made with DiffFormatter or
                              XmlDiffFormatter on the same files, options and normalize as the
                              printed one).  Let L, R (with roots and root namespace maps) be
                              the two documents d's files parse to and o the Differ options --
                              ANY documents and ANY option record o, in particular the one the
                              plumbing computes (C15_plumbing) --, script the edit script of
                              XV.Pipeline.diff_model (Differ.match + Differ.diff, similarity
                              oracle with the laws "not (F <= 0)", "0 != 1.0"), gs its rendering
                              as namedtuples (XV.Render), and let the string api d that
                              diff_files returns be the formatter's model applied to gs (the two
                              hypotheses: TextFormat.format resp. OldFormat.old_format; they
                              include that the formatter does not raise).  Then
                                - exit status 1 iff the script is non-empty, 0 (None) iff empty;
                                - documents that are NOT equal (doc_equiv: tree_equivb of the two
                                  documents with the ignored attributes filtered out: tags,
                                  attribute sets and values, texts, tails, comments, child order)
                                  give exit status 1;  exit status 0 implies equal documents (C03
                                  converse);
                                - equal documents (same_doc_upto, C03/C13's notion: same pre-order
                                  ids, child lists, tags, texts, tails, non-ignored attributes up to
                                  order; same roots and namespace maps; C03's oracle laws) give
                                  exit status 0 (C03 forward, C13).
   C15_check_iff              hence, on pairs of documents that are either equal in that sense or
                              not equivalent (everything the front end produces: both trees are
                              numbered in pre-order and lxml never yields an empty text), the
                              exit status is 1 iff the documents differ, and 0 iff they are equal
                              -- for every formatter (-f diff, -f old, -f xml).
   Proofs: XV.ComposeProofs (check_status_docs, check_status_iff, old_format_empty_iff),
   XV.CliProofs, XV.PipelineProofs, XV.EqualDocs. *)
Require Import XV.Forest XV.Matcher XV.Differ XV.Spec XV.WF XV.Path XV.Render XV.OldFormat
               XV.Pipeline XV.PipelineProofs XV.Compose XV.ComposeProofs.
From Coq Require Import Arith String.
Local Close Scope N_scope.

Theorem C15_diff_formatter_empty : forall acts text,
  format tables acts = Ok text -> (text = [] <-> acts = []).
Proof. exact diff_text_empty_iff. Qed.
Print Assumptions C15_diff_formatter_empty.

Theorem C15_old_formatter_empty : forall pe f root nsm gs txt,
  old_format pe f root nsm gs = OOk txt -> (txt = [] <-> gs = []).
Proof. exact old_format_empty_iff. Qed.
Print Assumptions C15_old_formatter_empty.

Theorem C15_check_docs :
  forall (sim : Type) (sim_ltb sim_leb : sim -> sim -> bool) (sim_is_one : sim -> bool)
         (zero one : sim) (leaf_sim : str -> str -> sim) (combine : sim -> nat -> nat -> sim)
         (api : df_call -> str) argv ns c1 c2,
  parse_args (pctx_of flags cli) (ct_diff_opts cli) argv = PArgs ns ->
  diff_command_plan flags cli argv = PlanRun c1 true c2 ->
  let d := decisive c1 c2 in
  forall (o : mopts sim) (DL DR : forest) (rootL rootR : id) (lns rns : nsmap)
         (pe : penv) (nsm : list (option str * str)) (script : list iact) (W : forest) (gs : list gaction),
  sim_leb (oF sim o) zero = false -> sim_is_one zero = false ->
  wf_forest DL rootL -> wf_forest DR rootR ->
  diff_model sim sim_ltb sim_leb sim_is_one zero one leaf_sim combine o DL DR rootL rootR lns rns
    = Some (script, W) ->
  render_script pe rootL DL script = Some gs ->
  (call_class d = Some s_DiffFormatter -> format tables gs = Ok (api d)) ->
  (call_class d = Some s_XmlDiffFormatter -> old_format pe DL rootL nsm gs = OOk (api d)) ->
  exists res,
    diff_command_run flags cli api argv = Some res /\
    cr_stdout res = api c1 ++ [10%N] /\
    (cr_status res = Some 1%Z <-> script <> []) /\
    (cr_status res = None <-> script = []) /\
    (tree_equivb (tree_map_attrs (node_attribs_d (oignored sim o)) (to_tree (S (fnext DL)) DL rootL))
                 (tree_map_attrs (node_attribs_d (oignored sim o)) (to_tree (S (fnext DR)) DR rootR)) <> true ->
     cr_status res = Some 1%Z) /\
    (cr_status res = None ->
     tree_equivb (tree_map_attrs (node_attribs_d (oignored sim o)) (to_tree (S (fnext DL)) DL rootL))
                 (tree_map_attrs (node_attribs_d (oignored sim o)) (to_tree (S (fnext DR)) DR rootR)) = true) /\
    ((forall s, sim_is_one (leaf_sim s s) = true) ->
     (forall m n, sim_is_one m = true -> 0 < n -> sim_is_one (combine m n n) = true) ->
     sim_is_one one = true ->
     (forall x, sim_is_one x = true -> sim_ltb zero x = true) ->
     (forall x, sim_is_one x = true -> sim_leb (oF sim o) x = true) ->
     (ofast sim o = true ->
      forall s t n x n', 0 < n -> sim_leb (oF sim o) (combine (leaf_sim s t) 0 n) = true ->
                         sim_is_one x = true -> 0 < n' -> sim_leb (oF sim o) (combine x 0 n') = true) ->
     rootR = rootL -> rns = lns ->
     (forall k v, In (k, v) lns -> ns_get lns k = Some v) ->
     (* DR is DL up to ignored attributes and attribute order *)
     (fnext DL = fnext DR /\
      (forall n, n < fnext DL -> fkids DL n = fkids DR n) /\
      (forall n, n < fnext DL ->
         ltag (flab DL n) = ltag (flab DR n) /\ ltext (flab DL n) = ltext (flab DR n) /\
         ltail (flab DL n) = ltail (flab DR n) /\
         Permutation.Permutation (node_attribs_d (oignored sim o) (lattrs (flab DL n)))
                                 (node_attribs_d (oignored sim o) (lattrs (flab DR n))))) ->
     cr_status res = None).
Proof.
  intros sim sim_ltb sim_leb sim_is_one zero one leaf_sim combine api argv ns c1 c2 Hp Hplan d
         o DL DR rootL rootR lns rns pe nsm script W gs HF H1.
  exact (check_status_docs sim sim_ltb sim_leb sim_is_one zero one leaf_sim combine api argv ns c1 c2 Hp Hplan
           o DL DR rootL rootR lns rns pe nsm script W gs (conj HF H1)).
Qed.
Print Assumptions C15_check_docs.

Theorem C15_check_iff :
  forall (sim : Type) (sim_ltb sim_leb : sim -> sim -> bool) (sim_is_one : sim -> bool)
         (zero one : sim) (leaf_sim : str -> str -> sim) (combine : sim -> nat -> nat -> sim)
         (api : df_call -> str) argv ns c1 c2,
  parse_args (pctx_of flags cli) (ct_diff_opts cli) argv = PArgs ns ->
  diff_command_plan flags cli argv = PlanRun c1 true c2 ->
  let d := decisive c1 c2 in
  forall (o : mopts sim) (DL DR : forest) (root : id) (lns : nsmap)
         (pe : penv) (nsm : list (option str * str)) (script : list iact) (W : forest) (gs : list gaction),
  sim_leb (oF sim o) zero = false -> sim_is_one zero = false ->
  (forall s, sim_is_one (leaf_sim s s) = true) ->
  (forall m n, sim_is_one m = true -> 0 < n -> sim_is_one (combine m n n) = true) ->
  sim_is_one one = true ->
  (forall x, sim_is_one x = true -> sim_ltb zero x = true) ->
  (forall x, sim_is_one x = true -> sim_leb (oF sim o) x = true) ->
  (ofast sim o = true ->
   forall s t n x n', 0 < n -> sim_leb (oF sim o) (combine (leaf_sim s t) 0 n) = true ->
                      sim_is_one x = true -> 0 < n' -> sim_leb (oF sim o) (combine x 0 n') = true) ->
  wf_forest DL root -> wf_forest DR root ->
  (forall k v, In (k, v) lns -> ns_get lns k = Some v) ->
  (* the domain: equal in the sense of C03/C13, or not equivalent *)
  same_doc_upto (oignored sim o) DL DR \/ ~ doc_equiv (oignored sim o) DL root DR root ->
  diff_model sim sim_ltb sim_leb sim_is_one zero one leaf_sim combine o DL DR root root lns lns
    = Some (script, W) ->
  render_script pe root DL script = Some gs ->
  (call_class d = Some s_DiffFormatter -> format tables gs = Ok (api d)) ->
  (call_class d = Some s_XmlDiffFormatter -> old_format pe DL root nsm gs = OOk (api d)) ->
  exists res,
    diff_command_run flags cli api argv = Some res /\
    cr_stdout res = api c1 ++ [10%N] /\
    (cr_status res = Some 1%Z <-> ~ doc_equiv (oignored sim o) DL root DR root) /\
    (cr_status res = None <-> doc_equiv (oignored sim o) DL root DR root).
Proof.
  intros sim sim_ltb sim_leb sim_is_one zero one leaf_sim combine api argv ns c1 c2 Hp Hplan d
         o DL DR root lns pe nsm script W gs HF H1.
  exact (check_status_iff sim sim_ltb sim_leb sim_is_one zero one leaf_sim combine api argv ns c1 c2 Hp Hplan
           o DL DR root lns pe nsm script W gs (conj HF H1)).
Qed.
Print Assumptions C15_check_iff.

(* Non-vacuity: xmldiff --check a b, documents <r><a k="1"/></r> and <r><a k="2"/></r>
   (they differ: UpdateAttrib), then the first against itself.  The parser accepts
   the argv, the plan is a single DiffFormatter call with --check, the DiffFormatter
   link holds by computation for api := the formatted text, and the model run
   prints the text and exits with 1, resp. prints the empty line and exits with 0. *)
Example C15_check_docs_example :
  let argv := [L "--check"%string; L "a"%string; L "b"%string] in
  let mk := fun v => mk_forest [(0, [1])]
              [(0, Lab (TElem [114%N]) [] None None);
               (1, Lab (TElem [97%N]) [([107%N], [v])] None None)] 2 in
  let leaf := fun a b : str => if str_eqb a b then 100 else 60 in
  let comb := fun m c n : nat => if Nat.ltb 0 n && Nat.eqb c n then m else m * 70 / 100 in
  let is_one := fun x => Nat.eqb x 100 in
  let o := MOpts nat 50 [] false false [] in
  let pe : penv := fun _ => None in
  let text_of := fun DR =>
    match diff_model nat Nat.ltb Nat.leb is_one 0 100 leaf comb o (mk 49%N) DR 0 0 [] [] with
    | Some (script, _) => match render_script pe 0 (mk 49%N) script with
                          | Some gs => match format tables gs with Ok t => Some t | Err _ => None end
                          | None => None
                          end
    | None => None
    end in
  (exists ns, parse_args (pctx_of flags cli) (ct_diff_opts cli) argv = PArgs ns) /\
  (exists c1, diff_command_plan flags cli argv = PlanRun c1 true None /\ call_class c1 = Some s_DiffFormatter) /\
  text_of (mk 50%N) = Some [91;117;112;100;97;116;101;45;97;116;116;114;105;98;117;116;101;44;32;
                            47;114;47;97;91;49;93;44;32;107;44;32;34;50;34;93]%N /\
  text_of (mk 49%N) = Some [] /\
  tree_equivb (doc_tree (mk 49%N) 0) (doc_tree (mk 50%N) 0) = false /\
  (forall t, text_of (mk 50%N) = Some t ->
     option_map cr_status (diff_command_run flags cli (fun _ => t) argv) = Some (Some 1%Z)) /\
  (forall t, text_of (mk 49%N) = Some t ->
     option_map cr_status (diff_command_run flags cli (fun _ => t) argv) = Some None).
Proof.
  cbv zeta.
  split; [eexists; vm_compute; reflexivity|].
  split; [eexists; split; vm_compute; reflexivity|].
  split; [vm_compute; reflexivity|]. split; [vm_compute; reflexivity|]. split; [vm_compute; reflexivity|].
  split; intros t E; vm_compute in E; injection E as <-; vm_compute; reflexivity.
Qed.
Print Assumptions C15_check_docs_example.
