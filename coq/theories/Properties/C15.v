(* C15 -- command line and API entry points agree, and --check reports differences.

   Tables: XV.Gen.CliPlumbing (every argparse option of make_diff_parser /
   make_patch_parser, the diff_options dictionary, the normalize choice, the formatter
   construction, the --check logic, validate_F's comparisons, the two list parsers) and
   XV.Gen.EntryPoints (diff_texts / diff_files / _diff / diff_trees / patch_text /
   patch_file / patch_tree as sequences of named primitives) are regenerated from
   /repo/xmldiff/main.py by translator/xl_main.py (fail closed) on every run.  The
   interpreters are in XV.Cli: parse_args (a model of the part of CPython's argparse
   main.py uses), diff_command_plan / diff_command_run, api_diff_*, api_patch_*.
   lxml, argparse, the file system and the Differ are primitives: validated by the
   correspondence (harness/props/C15.py), not proved.

   C15_plumbing_tables  the checker plumbing_ok holds of the generated tables: every Differ
                        keyword F, ratio_mode, fast_match, best_match, uniqueattrs,
                        ignored_attrs is fed from the like-named option through validate_F /
                        identity / _parse_uniqueattrs / _parse_ignored_attrs; the formatter is
                        FORMATTERS[-f](normalize=.., pretty_print=-p); --fast-match and
                        --best-match exclude each other; the result of diff_files(file1, file2, ..)
                        is what is printed; the --check logic.
   C15_namespace        every Namespace the modelled parser produces for make_diff_parser binds
                        exactly the twelve dests, with typed values.
   C15_plumbing         for every argv the parser accepts, what diff_command does (which calls
                        to diff_files with which files, Differ options and formatter) is
                        spec_plan of the Namespace -- the plumbing as it should be, written
                        out by hand in XV.Cli.
   C15_entrypoints_tables, C15_entrypoints
                        diff_texts / diff_files are diff_trees of the two inputs parsed with
                        etree.fromstring / etree.parse and ONE parser whose remove_blank_text is
                        the C14 switch; diff_trees is prepare; Differ( **opts).diff; list | format;
                        patch_text / patch_file are tounicode . patch_tree . (parse, DiffParser().parse)
                        -- for all interpretations of the primitives.
   C15_prints           diff_command prints exactly the result of its (first) diff_files call,
                        and returns nothing when --check is absent.
   C15_check            with --check the exit status is 1 iff the edit script is non-empty,
                        nothing (0) otherwise, for every formatter.  Needs: the DiffFormatter
                        renders the script as XV.TextFormat.format (C02's model, hypothesis
                        diff_formatter_renders) and the 'old' formatter renders nothing exactly
                        for the empty script (hypothesis old_formatter_nonempty: each of its
                        handlers yields at least one non-empty line); for -f xml the script is the
                        one recomputed with DiffFormatter(normalize) on the same files and options.
                        "Documents differ iff the script is non-empty" is C03 (Properties/C03.v).
   C15_usage            an argparse error is exit status 2 with nothing printed on stdout.
   C15_parse_render_uniqueattrs, C15_parse_render_ignored_attrs
                        the list parsers invert the obvious rendering for names free of ',' / '@'.
   Proofs: XV.CliProofs. *)
From Coq Require Import List NArith ZArith Bool.
Require Import XV.Str XV.TextFormat XV.Cli XV.CliProofs.
Require Import XV.Gen.TextTables XV.Gen.Flags XV.Gen.CliPlumbing XV.Gen.EntryPoints.
Import ListNotations.
Local Open Scope N_scope.

Theorem C15_plumbing_tables : plumbing_ok cli = true.
Proof. vm_compute. reflexivity. Qed.
Print Assumptions C15_plumbing_tables.

Theorem C15_namespace : forall argv ns,
  parse_args (pctx_of flags cli) (ct_diff_opts cli) argv = PArgs ns ->
  exists chk fmt kw pp F ua rm fm bm ia f1 f2,
    ns = mk_ns chk fmt kw pp F ua rm fm bm ia f1 f2 /\
    ostr_val ua = true /\ ostr_val ia = true /\ smem fmt (map fst (ft_formatters flags)) = true.
Proof. exact diff_parse_args_shape. Qed.
Print Assumptions C15_namespace.

Theorem C15_plumbing : forall argv ns,
  parse_args (pctx_of flags cli) (ct_diff_opts cli) argv = PArgs ns ->
  diff_command_plan flags cli argv = spec_plan ns.
Proof. exact diff_command_plan_spec. Qed.
Print Assumptions C15_plumbing.

Theorem C15_entrypoints_tables : entrypoints_ok flags entry = true.
Proof. vm_compute. reflexivity. Qed.
Print Assumptions C15_entrypoints_tables.

Theorem C15_entrypoints :
  forall (src tree script optsT fmtT outT actionsT : Type) (P : prims src tree script optsT fmtT outT actionsT),
  (forall l r o f, api_diff_trees P entry l r o f = Some (spec_diff_trees P l r o f)) /\
  (forall l r o f, api_diff_texts P flags entry l r o f =
                   match spec_rb P flags f with
                   | Some rb => api_diff_trees P entry (p_fromstring P (Some rb) l) (p_fromstring P (Some rb) r) o f
                   | None => None
                   end) /\
  (forall l r o f, api_diff_files P flags entry l r o f =
                   match spec_rb P flags f with
                   | Some rb => api_diff_trees P entry (p_parse P (Some rb) l) (p_parse P (Some rb) r) o f
                   | None => None
                   end) /\
  (forall f, spec_rb P flags f =
             Some (negb (N.land (match f with
                                 | Some x => match p_norm_attr P x with Some v => v | None => 1 end
                                 | None => 1
                                 end) 1 =? 0))) /\
  (forall a t, api_patch_text P entry a t = Some (spec_patch P a (p_fromstring P None t))) /\
  (forall a t e, api_patch_file P entry a t e = Some (spec_patch P (p_read P a e) (p_parse P None t))).
Proof.
  intros src tree script optsT fmtT outT actionsT P.
  exact (conj (diff_trees_spec _ _ _ _ _ _ _ P) (conj (diff_texts_spec _ _ _ _ _ _ _ P) (conj (diff_files_spec _ _ _ _ _ _ _ P)
        (conj (spec_rb_flags _ _ _ _ _ _ _ P) (conj (patch_text_spec _ _ _ _ _ _ _ P) (patch_file_spec _ _ _ _ _ _ _ P)))))).
Qed.
Print Assumptions C15_entrypoints.

Theorem C15_prints : forall (api : df_call -> str) argv c1 c2,
  diff_command_plan flags cli argv = PlanRun c1 false c2 ->
  diff_command_run flags cli api argv = Some {| cr_stdout := api c1 ++ [10]; cr_status := None |}.
Proof. exact nocheck_exit_status. Qed.
Print Assumptions C15_prints.

Theorem C15_check :
  forall (api : df_call -> str) (script : df_call -> list gaction)
         (diff_formatter_renders : forall c, call_class c = Some s_DiffFormatter -> format tables (script c) = Ok (api c))
         (old_formatter_nonempty : forall c, call_class c = Some s_XmlDiffFormatter -> (api c = [] <-> script c = []))
         argv ns c1 c2,
    parse_args (pctx_of flags cli) (ct_diff_opts cli) argv = PArgs ns ->
    diff_command_plan flags cli argv = PlanRun c1 true c2 ->
    (exists res, diff_command_run flags cli api argv = Some res /\
                 cr_stdout res = api c1 ++ [10] /\
                 (cr_status res = Some 1%Z <-> script (decisive c1 c2) <> []) /\
                 (cr_status res = None <-> script (decisive c1 c2) = [])) /\
    (* the deciding call: a text formatter on the same files, options and normalize *)
    (call_class (decisive c1 c2) = Some s_DiffFormatter \/ call_class (decisive c1 c2) = Some s_XmlDiffFormatter) /\
    (call_class c1 = Some s_XMLFormatter <-> c2 <> None) /\
    c_callee (decisive c1 c2) = c_callee c1 /\ c_args (decisive c1 c2) = c_args c1 /\
    call_opts (decisive c1 c2) = call_opts c1 /\ call_normalize (decisive c1 c2) = call_normalize c1.
Proof.
  intros api script Hd Ho argv ns c1 c2 Hp Hplan.
  exact (conj (check_status_script api script Hd Ho argv ns c1 c2 Hp Hplan) (check_decisive_call argv ns c1 c2 Hp Hplan)).
Qed.
Print Assumptions C15_check.

Theorem C15_usage : forall (api : df_call -> str) argv,
  diff_command_plan flags cli argv = PlanUsage ->
  diff_command_run flags cli api argv = Some {| cr_stdout := []; cr_status := Some 2%Z |}.
Proof. exact usage_exit_status. Qed.
Print Assumptions C15_usage.

Theorem C15_parse_render_uniqueattrs : forall us,
  Forall uattr_clean us -> parse_uniqueattrs (render_uniqueattrs us) = us.
Proof. exact parse_render_uniqueattrs. Qed.
Print Assumptions C15_parse_render_uniqueattrs.

Theorem C15_parse_render_ignored_attrs : forall xs,
  Forall (free_of 44) xs -> parse_ignored_attrs (render_ignored_attrs xs) = xs.
Proof. exact parse_render_ignored_attrs. Qed.
Print Assumptions C15_parse_render_ignored_attrs.
