(* C04 -- every action addresses exactly one existing node, with resolvable
   prefixes (path half); the shipped patcher resolves those paths to the
   intended nodes and then performs the documented action (patcher half, shared
   with C01/C05).

   Models: XV.Path (XPath subset; getpath = libxml2's xmlGetNodePath + the forced
   index of utils.getpath), XV.PatcherDSL + XV.Gen.PatcherProg (the handler
   programs GENERATED from xmldiff/patch.py), XV.Spec (documented semantics),
   XV.Render (identity-level action -> the namedtuple the differ yields).
   Proofs: XV.PathProofs, XV.PatcherProofs.

   Hypotheses, in plain words:
   - wf_forest f root (XV.WF): the document is a finite tree, tidy ids;
   - env_agrees pe env f root: each prefix that the prefix policy pe prints for
     the namespace URI of a document element is bound to that URI in env (the
     namespaces= mapping); URIs with pe u = None are the default namespace and
     are printed as "*";
   - names_ok pe f root: the local names and prefixes getpath prints are
     non-empty and free of the characters / [ ] : * ( )  (true of XML NCNames);
   - ns_named a: an InsertNamespace action carries a prefix.  InsertNamespace
     with prefix None (default namespace) makes the shipped handler fail
     (nsmap[None]); it is excluded explicitly;
   - script_ok pe root env f script: env_agrees, names_ok and ns_named hold
     before every action of the script, in the tree reached by the documented
     semantics and the environment extended by the InsertNamespace actions so
     far (env_after).  Checkable by computation: script_okb_sound.
   Conclusions use forest_ext_eq (same fnext, pointwise equal child lists and
   labels); no functional extensionality anywhere. *)
From Coq Require Import List NArith ZArith Bool Arith.
Import ListNotations.
Require Import XV.Str XV.Json XV.TextFormat XV.Forest XV.Matcher XV.Differ XV.Spec XV.WF
               XV.Path XV.PatcherDSL XV.Render XV.Gen.TextTables XV.Gen.PatcherProg
               XV.PathProofs XV.PatcherProofs.

Theorem C04_getpath_unique :
  forall (pe : penv) (env : nsenv) (f : forest) (root n : id),
  wf_forest f root -> In n (doc_nodes f root) -> env_agrees pe env f root ->
  eval_all env f root (getpath pe f root n) = Some [n] /\
  last_indexed (getpath pe f root n) = true.
Proof. exact getpath_unique. Qed.
Print Assumptions C04_getpath_unique.

Theorem C04_path_roundtrip :
  forall (pe : penv) (f : forest) (root n : id),
  wf_forest f root -> In n (doc_nodes f root) -> names_ok pe f root ->
  path_of_str (path_to_str (getpath pe f root n)) = Some (getpath pe f root n).
Proof. exact path_roundtrip. Qed.
Print Assumptions C04_path_roundtrip.

(* <r xmlns:p="up" ><p:a/><b xmlns="ud"/><c/><c><!--x--></c></r>, ids in document
   order: a prefixed element, a default-namespace element, two same-named
   siblings, a comment.  The hypotheses hold, every getpath selects its node,
   and the strings are the ones lxml prints. *)
Example C04_example :
  let f := mk_forest [(0, [1; 2; 3; 4]); (4, [5])]
            [(0, Lab (TElem [114%N]) [] None None);
             (1, Lab (TElem (clark [117;112]%N [97%N])) [] None None);
             (2, Lab (TElem (clark [117;100]%N [98%N])) [] None None);
             (3, Lab (TElem [99%N]) [] None None);
             (4, Lab (TElem [99%N]) [] None None);
             (5, Lab TComment [] (Some [120%N]) None)] 6 in
  let pe : penv := fun u => if str_eqb u [117;112]%N then Some [112%N] else None in
  let env : nsenv := [([112%N], [117;112]%N)] in
  wf_forest f 0 /\ env_agrees pe env f 0 /\ names_ok pe f 0 /\
  doc_nodes f 0 = [0; 1; 2; 3; 4; 5] /\
  map (fun n => eval_all env f 0 (getpath pe f 0 n)) [0; 1; 2; 3; 4; 5]
  = [Some [0]; Some [1]; Some [2]; Some [3]; Some [4]; Some [5]] /\
  map (fun n => path_to_str (getpath pe f 0 n)) [0; 1; 2; 3; 4; 5]
  = [ [47; 114; 91; 49; 93];                                   (* /r[1]     *)
      [47; 114; 47; 112; 58; 97; 91; 49; 93];                  (* /r/p:a[1] *)
      [47; 114; 47; 42; 91; 50; 93];                           (* /r/*[2]   *)
      [47; 114; 47; 99; 91; 49; 93];                           (* /r/c[1]   *)
      [47; 114; 47; 99; 91; 50; 93];                           (* /r/c[2]   *)
      [47; 114; 47; 99; 91; 50; 93; 47; 99; 111; 109; 109; 101; 110; 116; 40; 41; 91; 49; 93]
                                                               (* /r/c[2]/comment()[1] *)
    ]%N.
Proof.
  cbv zeta.
  split; [apply wf_forestb_sound; vm_compute; reflexivity|].
  split; [apply env_agreesb_iff; vm_compute; reflexivity|].
  split; [apply names_okb_iff; vm_compute; reflexivity|].
  split; [vm_compute; reflexivity|].
  split; vm_compute; reflexivity.
Qed.
Print Assumptions C04_example.

(* ---------------------------------------------------------------------- *)
(* The patcher.  The handler programs are GENERATED from xmldiff/patch.py on
   every run; this equation is the obligation that breaks when a handler is
   edited.  (With PDetach before the second PResolve in MoveNode, or with
   with_ns = false, it fails -- and C04_patcher_refines_spec would be false:
   IndexError resp. XPathEvalError on actions the documentation accepts.) *)
Theorem C04_patcher_progs_expected :
  patcher_progs =
  [ (n_DeleteNode, [PResolve 0 fn_node true; PDetach 0]);
    (n_InsertNode, [PResolve 0 fn_target true; PMakeElement 1 0 fn_tag; PInsertAt 0 fn_position 1]);
    (n_RenameNode, [PResolve 0 fn_node true; PSetTag 0 fn_tag]);
    (n_MoveNode, [PResolve 0 fn_node true; PResolve 1 fn_target true; PDetach 0; PInsertAt 1 fn_position 0]);
    (n_UpdateTextIn, [PResolve 0 fn_node true; PSetText 0 fn_text]);
    (n_UpdateTextAfter, [PResolve 0 fn_node true; PSetTail 0 fn_text]);
    (n_UpdateAttrib, [PResolve 0 fn_node true; PAssertHas 0 fn_name; PSetAttr 0 fn_name fn_value]);
    (n_DeleteAttrib, [PResolve 0 fn_node true; PDelAttr 0 fn_name]);
    (n_InsertAttrib, [PResolve 0 fn_node true; PAssertLacks 0 fn_name; PSetAttr 0 fn_name fn_value]);
    (n_RenameAttrib, [PResolve 0 fn_node true; PAssertHas 0 fn_oldname; PAssertLacks 0 fn_newname;
                      PCopyAttr 0 fn_newname fn_oldname; PDelAttr 0 fn_oldname]);
    (n_InsertComment, [PResolve 0 fn_target true; PMakeComment 1 fn_text; PInsertAt 0 fn_position 1]);
    (n_InsertNamespace, [PBindPrefix fn_prefix fn_uri]);
    (n_DeleteNamespace, [PNop]) ].
Proof. exact patcher_progs_expected. Qed.
Print Assumptions C04_patcher_progs_expected.

(* One action: the handler, run on the action as the differ renders it, resolves
   every path to the intended node and performs the documented action -- with
   assert statements enabled (b = true) or stripped (b = false). *)
Theorem C04_patcher_refines_spec :
  forall (pe : penv) (env : nsenv) (f : forest) (root : id) (vars : var -> option id) (b : bool)
         (ia : iact) (f' : forest),
  wf_forest f root -> env_agrees pe env f root -> names_ok pe f root -> ns_named ia ->
  spec_apply root f ia = Some f' ->
  exists s', handle_action actions_sig b root patcher_progs (PS f env vars) (render pe root f ia) = POk s'
             /\ forest_ext_eq (ps_f s') f'
             /\ ps_env s' = env_after ia env.
Proof. exact patcher_refines_spec. Qed.
Print Assumptions C04_patcher_refines_spec.

(* python -O: on documented-applicable actions the asserts never fire, so
   stripping them changes nothing *)
Theorem C04_asserts_unreachable :
  forall (pe : penv) (env : nsenv) (f : forest) (root : id) (vars : var -> option id)
         (ia : iact) (f' : forest),
  wf_forest f root -> env_agrees pe env f root -> names_ok pe f root -> ns_named ia ->
  spec_apply root f ia = Some f' ->
  handle_action actions_sig false root patcher_progs (PS f env vars) (render pe root f ia)
  = handle_action actions_sig true root patcher_progs (PS f env vars) (render pe root f ia).
Proof. exact patcher_asserts_unreachable. Qed.
Print Assumptions C04_asserts_unreachable.

(* A whole script: Patcher.patch (nsmap = the root's prefixed namespaces) on the
   rendered script yields the tree of the documented semantics. *)
Theorem C04_patch_replays_script :
  forall (pe : penv) (root : id) (L : forest) (root_nsmap : list (option str * str))
         (script : list iact) (T : forest) (gs : list gaction),
  wf_forest L root ->
  run_spec root L script = Some T ->
  render_script pe root L script = Some gs ->
  script_ok pe root (nsmap_env root_nsmap) L script ->
  exists T', patch actions_sig true root patcher_progs L root_nsmap gs = POk T' /\ forest_ext_eq T' T.
Proof. exact patch_replays_script. Qed.
Print Assumptions C04_patch_replays_script.

(* script_ok is satisfiable: on the forest of C04_example, bind a new prefix,
   rename into the new namespace, move, insert, attribute actions, delete *)
Example C04_example_script :
  let f := mk_forest [(0, [1; 2; 3; 4]); (4, [5])]
            [(0, Lab (TElem [114%N]) [] None None);
             (1, Lab (TElem (clark [117;112]%N [97%N])) [] None None);
             (2, Lab (TElem (clark [117;100]%N [98%N])) [] None None);
             (3, Lab (TElem [99%N]) [] None None);
             (4, Lab (TElem [99%N]) [] None None);
             (5, Lab TComment [] (Some [120%N]) None)] 6 in
  let pe : penv := fun u => if str_eqb u [117;112]%N then Some [112%N]
                            else if str_eqb u [117;113]%N then Some [113%N] else None in
  let nsm : list (option str * str) := [(Some [112%N], [117;112]%N); (None, [117;100]%N)] in
  let script := [IInsNs (Some [113%N]) [117;113]%N; IRename 3 (clark [117;113]%N [122%N]);
                 IMove 1 4 0; IInsert 3 [119%N] 0 6; IInsAttr 6 [1%N] [5%N];
                 IRenAttr 6 [1%N] [2%N]; IMove 3 4 2; IDelete 2] in
  script_ok pe 0 (nsmap_env nsm) f script /\
  match run_spec 0 f script, render_script pe 0 f script with
  | Some T, Some gs =>
      match patch actions_sig true 0 patcher_progs f nsm gs with
      | POk T' => doc_tree T' 0 = doc_tree T 0
      | PErr _ => False
      end
  | _, _ => False
  end.
Proof.
  cbv zeta. split; [apply script_okb_sound; vm_compute; reflexivity|].
  vm_compute. reflexivity.
Qed.
Print Assumptions C04_example_script.
