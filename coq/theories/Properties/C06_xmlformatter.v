(* C06, "reusing a ... formatter ... object that has already processed other documents", for the XML formatter.
   An XMLFormatter keeps ONE PlaceholderMaker for its whole life (its tables are never reset), so what a second diff
   through the same formatter returns could depend on the first.  C06_xmlformatter_maker_unchanged: for the differ's own
   script, WITHOUT use_replace, on documents in which no text-tag element has element children (any text_tags, any
   formatting_tags), neither prepare() nor the handlers change the maker: after the whole call the formatter object is
   in the state of a newly made one, so whatever it is used for next, it returns what a new XMLFormatter returns (the
   model's format is a function of the configuration, the maker and its arguments).
   With use_replace the maker grows by one diff:replace opener per replaced segment (XmlFmtProofs4.step_ph), with inline
   elements inside text tags by their placeholders: those reuses are MONITORED (harness/props/C06.py and
   harness/xmlfmt_corr.py: one formatter along chains of revisions against new formatters), not proved.
   Proofs: XV.XmlFmtReuse, XV.TextTagsFlat, XV.XmlFmtDiffer.  This file contains statements only. *)
From Coq Require Import List NArith ZArith Bool.
Import ListNotations.
Require Import XV.Str XV.Json XV.TextFormat XV.Forest XV.Matcher XV.Differ XV.Spec XV.Path XV.WF XV.PathProofs XV.Render
               XV.XmlFmt XV.Projections XV.XmlFmtProofs1 XV.XmlFmtProofs2 XV.XmlFmtProofsR2 XV.XmlFmtProofs4 XV.XmlFmtProofs5
               XV.PrefixProofs XV.XmlFmtDiffer3 XV.XmlFmtDiffer XV.TextTagsFlat XV.XmlFmtReuse.
Require XV.Placeholder.
Local Open Scope N_scope.

Theorem C06_xmlformatter_maker_unchanged :
  forall (c : cfg) (o : oracle) (pe : penv) (L R : forest) (rootL rootR : id) (lns rns : nsmap) (m : list (id * id))
         (pro : list iact) (gs : list gaction) (st' : fstate),
  c_replace c = false ->
  wf_forest L rootL -> wf_forest R rootR -> valid_matching L R rootL rootR m ->
  ns_prologue lns rns = Some pro ->
  ns_decl_okb pe lns rns L rootL R rootR = true -> doc_names_okb pe L rootL = true -> doc_names_okb pe R rootR = true ->
  doc_okb L = true -> doc_okb R = true ->
  let W := remove_comments (doc_tree L rootL) in
  let WR := remove_comments (doc_tree R rootR) in
  tt_flat (c_tt c) W = true -> tt_flat (c_tt c) WR = true ->
  render_script pe rootL L (pro ++ out (gen_script [] R rootR L rootL m)) = Some gs ->
  handle_all c o lns (FS W Placeholder.ph_init [(Some DIFF_PREFIX, DIFF_NS)]) gs = FOk st' ->
  prepare c (doc_tree L rootL) (doc_tree R rootR) = (Placeholder.ph_init, W, WR) /\
  fs_ph st' = Placeholder.ph_init.
Proof.
  intros c o pe L R rootL rootR lns rns m pro gs st' Hnr H1 H2 H3 H4 H5 H6 H7 H8 H9 W WR HL HR Hren Hrun.
  split.
  - subst W WR. unfold prepare.
    rewrite (do_tree_flat (c_tt c) (c_fmt c) Placeholder.ph_init _ HL).
    rewrite (do_tree_flat (c_tt c) (c_fmt c) Placeholder.ph_init _ HR). reflexivity.
  - assert (Hroom : c_replace c = true -> text_size R rootR <= 6393) by (rewrite Hnr; discriminate).
    pose proof (differ_run_ok_b c o pe L R rootL rootR lns rns m pro gs H1 H2 H3 H4 H5 H6 H7 H8 H9 Hroom Hren) as Hok.
    exact (handle_all_ph_same c o lns Hnr gs (FS W Placeholder.ph_init [(Some DIFF_PREFIX, DIFF_NS)]) st' tinv_init Hok Hrun).
Qed.
Print Assumptions C06_xmlformatter_maker_unchanged.

(* non-vacuity: the documents of C08_flat_texttags_example, text_tags = [b; c; d], formatting_tags = [i], no use_replace:
   every premise by computation, and the run does return a state *)
Example C06_xmlformatter_example :
  let c := Cfg 0 false [[98]; [99]; [100]] [[105]] in
  c_replace c = false /\
  tt_flat (c_tt c) (remove_comments (doc_tree dx_L 0%nat)) = true /\
  tt_flat (c_tt c) (remove_comments (doc_tree dx_R 0%nat)) = true /\
  (wf_forest dx_L 0%nat /\ wf_forest dx_R 0%nat /\ valid_matching dx_L dx_R 0%nat 0%nat dx_m /\ ns_prologue [] [] = Some [] /\
   ns_decl_okb dx_pe [] [] dx_L 0%nat dx_R 0%nat = true /\ doc_names_okb dx_pe dx_L 0%nat = true /\ doc_names_okb dx_pe dx_R 0%nat = true /\
   doc_okb dx_L = true /\ doc_okb dx_R = true /\ text_size dx_R 0%nat <= 6393) /\
  match render_script dx_pe 0%nat dx_L (out (gen_script [] dx_R 0%nat dx_L 0%nat dx_m)) with
  | Some gs => match handle_all c dx_o [] (FS (remove_comments (doc_tree dx_L 0%nat)) Placeholder.ph_init [(Some DIFF_PREFIX, DIFF_NS)]) gs with
               | FOk st' => fs_ph st' = Placeholder.ph_init
               | FErr _ => False
               end
  | None => False
  end.
Proof.
  cbv zeta. split; [reflexivity|]. split; [vm_compute; reflexivity|]. split; [vm_compute; reflexivity|].
  split; [exact dx_premises|]. vm_compute. reflexivity.
Qed.
Print Assumptions C06_xmlformatter_example.
