(* C06 -- diffing and patching are pure: inputs untouched, deterministic, no history.

   "Computing an edit script (with no formatter or with the 'diff'/'old'
    formatters) never modifies either input tree, and patching never modifies the
    input tree or the action list.  The result depends only on the two documents
    and the options: repeating the call, reusing a differ, formatter or patcher
    object that has already processed other documents, having diffed other
    documents earlier in the same process, or running under a different hash seed
    all give the identical result."

   LEVEL: PARTIAL PROOF.
   PROVED here (object-level state machines, XV.DifferState; proofs XV.DifferStateProofs):
     the result of diff(l, r) / patch(actions, tree) / format(diff, tree) on an
     instance is the same after ANY history of calls on that instance as on a new
     one; the three Python sets of update_node_attr may be enumerated in any order.
     The model is abstract in what the phases compute (match_fn, script_fn, ...):
     "the matching / the generator are functions of (working copy, right tree,
     matching state)" is the modelling assumption, validated on every run by
     executing model and implementation on the same call sequences.
   MONITORED at run time (testing, harness/props/C06.py) -- not expressible about a
   functional model: the lxml trees and the action list passed in are not mutated;
   nothing flows through lxml's process-global prefix registry
   (etree.register_namespace); the hash seed is irrelevant.

   The premise of every theorem is C06_shape_ok: the guards of Differ.match /
   Differ.diff, the attributes reset by Differ.clear, "self._nsmap = tree.nsmap
   precedes the loop" ..., as READ from /repo by translator/xl_state.py on this
   build (XV.Gen.StateShape), are the ones the proofs need.

   Notation: step s op = (state afterwards, outcome);  ODiff ol or is
   list(differ.diff(ol, or)) (generator created and exhausted); None = argument
   omitted / not an lxml element.  script_fn l r m = (script, mutated working
   copy, matching state afterwards). *)
From Coq Require Import List Bool String Permutation.
Import ListNotations.
Require Import XV.Str XV.TextFormat XV.Forest XV.Path XV.PatcherDSL XV.Differ XV.AttrProofs.
Require Import XV.DifferState XV.Gen.StateShape XV.DifferStateProofs.

(* the facts read from the source on this build are the ones the proofs need *)
Theorem C06_shape_ok : state_shape_ok = true.
Proof. vm_compute. reflexivity. Qed.
Print Assumptions C06_shape_ok.

(* After ANY history of clear / set_trees / match / diff calls on one Differ
   instance, diff(l, r) returns what a new instance returns for (l, r). *)
Theorem C06_differ_history :
  forall (T M S : Type) (match_fn : T -> T -> M) (script_fn : T -> T -> M -> S * T * M)
         (m_empty : M) (m_is_empty : M -> bool)
         (ops : list (op T)) (s : dstate T M) (l r : T),
  DifferState.reachable T M S match_fn script_fn m_empty m_is_empty differ_shape ops s ->
  output (DifferState.step T M S match_fn script_fn m_empty m_is_empty differ_shape s (ODiff (Some l) (Some r)))
  = OScript (fst (fst (script_fn l r (match_fn l r)))).
Proof. exact (gen_differ_history C06_shape_ok). Qed.
Print Assumptions C06_differ_history.

(* The same for every state whatsoever (reachable or not), and stated against
   main.diff_trees (a new Differ per call). *)
Theorem C06_differ_any_state :
  forall (T M S : Type) (match_fn : T -> T -> M) (script_fn : T -> T -> M -> S * T * M)
         (m_empty : M) (m_is_empty : M -> bool) (s : dstate T M) (l r : T),
  output (DifferState.step T M S match_fn script_fn m_empty m_is_empty differ_shape s (ODiff (Some l) (Some r)))
  = OScript (fst (fst (script_fn l r (match_fn l r)))) /\
  output (DifferState.step T M S match_fn script_fn m_empty m_is_empty differ_shape s (ODiff (Some l) (Some r)))
  = diff_trees T M S match_fn script_fn m_empty m_is_empty differ_shape l r.
Proof. exact (gen_differ_any_state C06_shape_ok). Qed.
Print Assumptions C06_differ_any_state.

(* A whole history of diff(l_i, r_i) calls on one instance, from any state: the
   i-th outcome is the script of (l_i, r_i) -- a function of that call's arguments. *)
Theorem C06_differ_trace :
  forall (T M S : Type) (match_fn : T -> T -> M) (script_fn : T -> T -> M -> S * T * M)
         (m_empty : M) (m_is_empty : M -> bool) (s : dstate T M) (docs : list (T * T)),
  trace T M S match_fn script_fn m_empty m_is_empty differ_shape s
        (map (fun p => ODiff (Some (fst p)) (Some (snd p))) docs) =
  map (fun p => OScript (fst (fst (script_fn (fst p) (snd p) (match_fn (fst p) (snd p)))))) docs.
Proof. exact (gen_differ_trace C06_shape_ok). Qed.
Print Assumptions C06_differ_trace.

(* Repeating calls.  The last clause says precisely what diff() WITHOUT arguments
   returns once a previous diff has consumed the working copy: the generator is
   re-run on the mutated copy l' and on the matching state m' left behind -- in
   general NOT the script of (l, r) (see C06_differ_noarg_repeat_refuted). *)
Theorem C06_differ_repeat :
  forall (T M S : Type) (match_fn : T -> T -> M) (script_fn : T -> T -> M -> S * T * M)
         (m_empty : M) (m_is_empty : M -> bool) (s : dstate T M) (l r : T),
  let step := DifferState.step T M S match_fn script_fn m_empty m_is_empty differ_shape in
  let script := OScript (fst (fst (script_fn l r (match_fn l r)))) in
  let l' := snd (fst (script_fn l r (match_fn l r))) in
  let m' := snd (script_fn l r (match_fn l r)) in
  output (step (state_after (step s (ODiff (Some l) (Some r)))) (ODiff (Some l) (Some r))) =
    output (step s (ODiff (Some l) (Some r))) /\
  output (step s (OMatch (Some l) (Some r))) = OMatches (match_fn l r) /\
  output (step (state_after (step s (OMatch (Some l) (Some r)))) (OMatch None None)) = OMatches (match_fn l r) /\
  output (step (state_after (step s (OMatch (Some l) (Some r)))) (ODiff None None)) = script /\
  output (step (state_after (step s (OSetTrees (Some l) (Some r)))) (ODiff None None)) = script /\
  output (step (state_after (step s (ODiff (Some l) (Some r)))) (ODiff None None)) =
    OScript (fst (fst (script_fn l' r m'))).
Proof. exact (gen_differ_repeat C06_shape_ok). Qed.
Print Assumptions C06_differ_repeat.

(* diff() without arguments IS history independent as long as no diff generator
   has consumed the working copy since the documents were set (d_consumed is the
   model's ghost flag for exactly that). *)
Theorem C06_differ_noarg_unconsumed :
  forall (T M S : Type) (match_fn : T -> T -> M) (script_fn : T -> T -> M -> S * T * M)
         (m_empty : M) (m_is_empty : M -> bool)
         (ops : list (op T)) (s : dstate T M) (l r : T),
  DifferState.reachable T M S match_fn script_fn m_empty m_is_empty differ_shape ops s ->
  d_left s = Some l -> d_right s = Some r -> d_consumed s = false ->
  output (DifferState.step T M S match_fn script_fn m_empty m_is_empty differ_shape s (ODiff None None))
  = OScript (fst (fst (script_fn l r (match_fn l r)))).
Proof. exact (gen_differ_noarg_unconsumed C06_shape_ok). Qed.
Print Assumptions C06_differ_noarg_unconsumed.

(* REFUTED for calls that do not pass the documents: set_trees(l, r); diff();
   diff() -- the repeated call returns [] instead of the script (toy instance;
   replayed on the implementation by harness/props/C06.py on every run). *)
Theorem C06_differ_noarg_repeat_refuted :
  let s0 := state_after (toy_step good_shape d_init (OSetTrees (Some t_ab) (Some t_ac))) in
  let s1 := state_after (toy_step good_shape s0 (ODiff None None)) in
  shape_ok good_shape = true /\
  output (toy_step good_shape s0 (ODiff None None)) = OScript (toy_script_of t_ab t_ac) /\
  output (toy_step good_shape s1 (ODiff None None)) = OScript [] /\
  toy_script_of t_ab t_ac <> [].
Proof. exact differ_noarg_repeat_refuted. Qed.
Print Assumptions C06_differ_noarg_repeat_refuted.

(* With no documents set: match() raises AttributeError the first time and
   returns [] the second time (the prologue has already stored the empty list);
   diff() raises every time.  A half-given pair raises TypeError and clears. *)
Theorem C06_differ_no_trees :
  forall (T M S : Type) (match_fn : T -> T -> M) (script_fn : T -> T -> M -> S * T * M)
         (m_empty : M) (m_is_empty : M -> bool),
  let step := DifferState.step T M S match_fn script_fn m_empty m_is_empty differ_shape in
  step d_init (OMatch None None) = (DS None None (Some m_empty) false, OError DifferState.EAttributeError) /\
  step (DS None None (Some m_empty) false) (OMatch None None) =
    (DS None None (Some m_empty) false, OMatches m_empty) /\
  step d_init (ODiff None None) = (DS None None (Some m_empty) false, OError DifferState.EAttributeError) /\
  step (DS None None (Some m_empty) false) (ODiff None None) =
    (DS None None (Some m_empty) false, OError DifferState.EAttributeError).
Proof. exact (gen_differ_no_trees C06_shape_ok). Qed.
Print Assumptions C06_differ_no_trees.

Theorem C06_differ_bad_args :
  forall (T M S : Type) (match_fn : T -> T -> M) (script_fn : T -> T -> M -> S * T * M)
         (m_empty : M) (m_is_empty : M -> bool) (s : dstate T M) (ol or : option T),
  let step := DifferState.step T M S match_fn script_fn m_empty m_is_empty differ_shape in
  is_some ol && is_some or = false -> is_some ol || is_some or = true ->
  step s (OMatch ol or) = (DS None None None false, OError DifferState.ETypeError) /\
  step s (ODiff ol or) = (DS None None None false, OError DifferState.ETypeError) /\
  step s (OSetTrees ol or) = (DS None None None false, OError DifferState.ETypeError).
Proof. exact (gen_differ_bad_args C06_shape_ok). Qed.
Print Assumptions C06_differ_bad_args.

(* The premise on the guard of diff() is load-bearing: with upstream's
   `if not self._matches:` (defect D6, repaired in /repo by 10b21b1) a reused
   differ ignores the documents passed in: the history
   [diff(<a><b/></a>, <a><c/></a>); diff(<a/>, <a x="1"/>)] ends with []. *)
Theorem C06_upstream_guard_refuted :
  shape_ok upstream_shape = false /\
  let s1 := state_after (toy_step upstream_shape d_init (ODiff (Some t_ab) (Some t_ac))) in
  output (toy_step upstream_shape s1 (ODiff (Some t_a) (Some t_ax))) = OScript [] /\
  output (toy_step upstream_shape s1 (ODiff (Some t_a) (Some t_ax))) <> OScript (toy_script_of t_a t_ax).
Proof. exact upstream_guard_refuted. Qed.
Print Assumptions C06_upstream_guard_refuted.

(* Patcher: the result of patch(actions, tree) does not depend on what the
   instance patched before, and equals main.patch_tree (a new Patcher). *)
Theorem C06_patcher_history :
  forall (Tr A R NS : Type) (nsmap_of : Tr -> NS) (ns_empty : NS)
         (run_actions : NS -> Tr -> list A -> R * NS) (st1 st2 : pobj NS) (t : Tr) (acts : list A),
  result (patch_obj Tr A R NS nsmap_of ns_empty run_actions patcher_ns_from_tree st1 t acts) =
  result (patch_obj Tr A R NS nsmap_of ns_empty run_actions patcher_ns_from_tree st2 t acts) /\
  result (patch_obj Tr A R NS nsmap_of ns_empty run_actions patcher_ns_from_tree st1 t acts) =
  patch_tree Tr A R NS nsmap_of ns_empty run_actions patcher_ns_from_tree t acts.
Proof. exact (gen_patcher_history C06_shape_ok). Qed.
Print Assumptions C06_patcher_history.

(* ... in particular for the executable patcher model of XV.PatcherDSL. *)
Theorem C06_patcher_is_dsl_patch :
  forall (sig : list (str * list str)) (asserts_on : bool) (root : id) (progs : list (str * list pinstr))
         (st : pobj nsenv) (f : forest) (nsm : list (option str * str)) (acts : list gaction),
  result (patch_obj _ _ _ _ dsl_nsmap_of [] (dsl_run sig asserts_on root progs)
                    patcher_ns_from_tree st (f, nsm) acts) =
  PatcherDSL.patch sig asserts_on root progs f nsm acts.
Proof. exact (gen_patcher_is_dsl_patch C06_shape_ok). Qed.
Print Assumptions C06_patcher_is_dsl_patch.

(* Formatters: 'diff' is a function of the action list alone (and leaves the
   object unchanged); 'old' of (actions, tree) alone -- its _nsmap is overwritten
   before use. *)
Theorem C06_formatter_history :
  forall (A Tr Out NS : Type) (fmt_diff : list A -> Out)
         (fmt_stateful : dfobj -> list A -> option Tr -> dfobj * Out)
         (old_ns_of : option Tr -> NS) (old_run : NS -> option Tr -> list A -> Out * NS) (ns_empty : NS)
         (d1 d2 : dfobj) (x1 x2 : xdfobj NS) (acts : list A) (o1 o2 orig : option Tr),
  snd (diff_format A Tr Out fmt_diff fmt_stateful diff_formatter_stateless d1 acts o1) = fmt_diff acts /\
  snd (diff_format A Tr Out fmt_diff fmt_stateful diff_formatter_stateless d1 acts o1) =
  snd (diff_format A Tr Out fmt_diff fmt_stateful diff_formatter_stateless d2 acts o2) /\
  fst (diff_format A Tr Out fmt_diff fmt_stateful diff_formatter_stateless d1 acts o1) = d1 /\
  snd (old_format A Tr Out NS old_ns_of old_run ns_empty old_formatter_ns_reset x1 acts orig) =
    fst (old_run (old_ns_of orig) orig acts) /\
  snd (old_format A Tr Out NS old_ns_of old_run ns_empty old_formatter_ns_reset x1 acts orig) =
  snd (old_format A Tr Out NS old_ns_of old_run ns_empty old_formatter_ns_reset x2 acts orig).
Proof. exact (gen_formatter_history C06_shape_ok). Qed.
Print Assumptions C06_formatter_history.

(* Hash seed: update_node_attr builds the Python sets common_keys, removed_keys,
   new_keys and every loop runs over sorted(set) (checked in the source on every
   build: attr_sorted_loops).  In whatever orders the sets enumerate, the result
   (emitted actions, final attributes, error flag) is literally the same. *)
Theorem C06_iteration_order :
  forall (comk comk' remk remk' newk newk' : list str) (la ra : list (str * str)),
  Permutation comk comk' -> Permutation remk remk' -> Permutation newk newk' ->
  attr_run_on comk remk newk la ra = attr_run_on comk' remk' newk' la ra.
Proof. exact attr_set_order_independent. Qed.
Print Assumptions C06_iteration_order.

(* ... and it is the result of the differ model's attribute phase. *)
Theorem C06_iteration_order_model :
  forall (ign : list str) (la ra : list (str * str)) (comk remk newk : list str),
  Permutation (common_keys ign la ra) comk ->
  Permutation (removed_keys ign la ra) remk ->
  Permutation (new_keys ign la ra) newk ->
  attr_run_on comk remk newk la ra = attr_run ign la ra.
Proof. exact attr_iteration_order. Qed.
Print Assumptions C06_iteration_order_model.

(* The history [diff(<a><b/></a>, <a><c/></a>); diff(<a/>, <a x="1"/>)] on ONE
   differ (toy instance, the shape generated on this build): each call returns
   the script of its own documents, the second the same as a new differ. *)
Example C06_replay_history :
  toy_trace differ_shape d_init [ODiff (Some t_ab) (Some t_ac); ODiff (Some t_a) (Some t_ax)] =
    [OScript ["replace-by <a><c></c></a>"%string]; OScript ["replace-by <a x='1'></a>"%string]] /\
  toy_trace differ_shape d_init [ODiff (Some t_a) (Some t_ax)] = [OScript ["replace-by <a x='1'></a>"%string]] /\
  toy_script_of t_ab t_ac = ["replace-by <a><c></c></a>"%string] /\
  toy_script_of t_a t_ax = ["replace-by <a x='1'></a>"%string].
Proof. vm_compute. repeat split. Qed.
Print Assumptions C06_replay_history.
