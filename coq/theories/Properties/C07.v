(* C07 -- Differ.match() (model: XV.Matcher.match_nodes, validated against the
   Python implementation by differential testing).

   "The list of matches exposed by the differ pairs each node of the left
    document with at most one node of the right document and vice versa, always
    pairs the two roots, only pairs nodes that belong to the two documents being
    compared, and never pairs a comment with an element.  Apart from the roots,
    two elements are never paired if a configured unique attribute is present on
    either of them and their values differ (or only one has it)."

   The statements hold for EVERY similarity oracle (sim, sim_ltb, sim_leb,
   sim_is_one, zero, one, leaf_sim, combine) -- hence for the three ratio modes --
   and for the three strategies (default / fast_match / best_match: the fields
   ofast, obest of o are arbitrary).  The only oracle laws used are
       sim_leb (oF o) zero = false     (not 0 >= F, i.e. the threshold F is > 0)
       sim_is_one zero = false         (0 is not 1.0)
   Nothing is assumed about sim_ltb, leaf_sim, combine.  The documents are
   well-formed trees: their post-order node lists are duplicate free.
   The kind and unique-attribute clauses are not claimed for the pair of the
   roots (the roots are paired unconditionally).
   `m` is Differ._matches: (left id, right id) in order, root pair last.
   Proofs: XV.MatcherProofs. *)
From Coq Require Import List NArith ZArith Bool Arith PrimFloat.
Import ListNotations.
Require Import XV.Str XV.Forest XV.LCS XV.Matcher XV.MatcherProofs.

Theorem C07_match_valid :
  forall (sim : Type) (sim_ltb sim_leb : sim -> sim -> bool) (sim_is_one : sim -> bool)
         (zero one : sim) (leaf_sim : str -> str -> sim) (combine : sim -> nat -> nat -> sim)
         (o : mopts sim) (L R : forest) (rootL rootR : id) (m : list (id * id)),
  sim_leb (oF sim o) zero = false ->
  sim_is_one zero = false ->
  NoDup (post_order (S (fnext L)) L rootL) ->
  NoDup (post_order (S (fnext R)) R rootR) ->
  match_nodes sim sim_ltb sim_leb sim_is_one zero one leaf_sim combine o L R rootL rootR = Some m ->
  (* each left node at most once, each right node at most once *)
  NoDup (map fst m) /\ NoDup (map snd m) /\
  (* the roots are paired *)
  In (rootL, rootR) m /\
  (* only nodes of the two documents *)
  (forall l r, In (l, r) m ->
     In l (post_order (S (fnext L)) L rootL) /\ In r (post_order (S (fnext R)) R rootR)) /\
  (* never a comment with an element *)
  (forall l r, In (l, r) m -> (l, r) <> (rootL, rootR) ->
     is_comment (ltag (labof L l)) = is_comment (ltag (labof R r))) /\
  (* the unique-attribute loop of node_ratio does not reject the pair *)
  (forall l r, In (l, r) m -> (l, r) <> (rootL, rootR) ->
     is_comment (ltag (labof L l)) = false ->
     forall s, uniq_decide sim zero one o (ouniq sim o) (ltag (labof L l)) (ltag (labof R r))
                 (lattrs (labof L l)) (lattrs (labof R r)) false = Some s -> s = one).
Proof. exact match_valid. Qed.
Print Assumptions C07_match_valid.

(* The unique-attribute clause in elementary terms: for a matched pair of
   elements other than the roots, every configured unique attribute -- a plain
   name `UA a`, or `UTA t a` when both elements have tag t -- that is not ignored
   and is present on either element has the same value on both (aget returns
   None for an absent attribute, so "only one has it" is excluded too). *)
Theorem C07_unique_attr :
  forall (sim : Type) (sim_ltb sim_leb : sim -> sim -> bool) (sim_is_one : sim -> bool)
         (zero one : sim) (leaf_sim : str -> str -> sim) (combine : sim -> nat -> nat -> sim)
         (o : mopts sim) (L R : forest) (rootL rootR : id) (m : list (id * id)),
  sim_leb (oF sim o) zero = false ->
  sim_is_one zero = false ->
  NoDup (post_order (S (fnext L)) L rootL) ->
  NoDup (post_order (S (fnext R)) R rootR) ->
  match_nodes sim sim_ltb sim_leb sim_is_one zero one leaf_sim combine o L R rootL rootR = Some m ->
  forall l r, In (l, r) m -> (l, r) <> (rootL, rootR) ->
  is_comment (ltag (labof L l)) = false ->
  let la := lattrs (labof L l) in
  let ra := lattrs (labof R r) in
  (forall a, In (UA a) (ouniq sim o) -> ~ In a (oignored sim o) ->
             ahas la a || ahas ra a = true -> aget la a = aget ra a) /\
  (forall t a, In (UTA t a) (ouniq sim o) ->
             ltag (labof L l) = TElem t -> ltag (labof R r) = TElem t ->
             ~ In a (oignored sim o) ->
             ahas la a || ahas ra a = true -> aget la a = aget ra a).
Proof. exact match_unique_attr. Qed.
Print Assumptions C07_unique_attr.

(* match() always returns normally (needs no hypothesis at all) *)
Theorem C07_match_total :
  forall (sim : Type) (sim_ltb sim_leb : sim -> sim -> bool) (sim_is_one : sim -> bool)
         (zero one : sim) (leaf_sim : str -> str -> sim) (combine : sim -> nat -> nat -> sim)
         (o : mopts sim) (L R : forest) (rootL rootR : id),
  exists m : list (id * id),
    match_nodes sim sim_ltb sim_leb sim_is_one zero one leaf_sim combine o L R rootL rootR = Some m.
Proof. exact match_total. Qed.
Print Assumptions C07_match_total.

(* Non-vacuity: the premises are satisfiable, and the three strategies return
   non-trivial matchings (by computation), on the documents
     left :  <r><a i="1"/><a i="2"/><!--x--></r>
     right:  <r><!--x--><a i="2"/><a i="1"/></r>
   with unique attribute "i".
   (1) similarities in percent: nat with Nat.ltb / Nat.leb / (=? 100), zero = 0,
       one = 100, F = 50. *)
Example C07_nonvacuous_nat :
  let lab_a := Lab (TElem [97%N]) [([105%N], [49%N])] None None in
  let lab_b := Lab (TElem [97%N]) [([105%N], [50%N])] None None in
  let lab_c := Lab TComment [] (Some [120%N]) None in
  let lab_r := Lab (TElem [114%N]) [] None None in
  let L := mk_forest [(0, [1; 2; 3])] [(0, lab_r); (1, lab_a); (2, lab_b); (3, lab_c)] 4 in
  let R := mk_forest [(0, [1; 2; 3])] [(0, lab_r); (1, lab_c); (2, lab_b); (3, lab_a)] 4 in
  let leaf := fun a b : str => if str_eqb a b then 100 else 25 in
  let comb := fun (x : nat) (_ _ : nat) => x in
  let opts := fun fast best => MOpts nat 50 [UA [105%N]] fast best [] in
  let run := fun fast best =>
    match_nodes nat Nat.ltb Nat.leb (fun x => Nat.eqb x 100) 0 100 leaf comb (opts fast best) L R 0 0 in
  (forall fast best, Nat.leb (oF nat (opts fast best)) 0 = false) /\
  Nat.eqb 0 100 = false /\
  NoDup (post_order (S (fnext L)) L 0) /\
  NoDup (post_order (S (fnext R)) R 0) /\
  run false false = Some [(1, 3); (2, 2); (3, 1); (0, 0)] /\
  run true false = Some [(3, 1); (1, 3); (2, 2); (0, 0)] /\
  run false true = Some [(1, 3); (2, 2); (3, 1); (0, 0)].
Proof.
  cbv zeta.
  split; [intros fast best; vm_compute; reflexivity|].
  split; [vm_compute; reflexivity|].
  split; [vm_compute; repeat constructor; simpl; intuition discriminate|].
  split; [vm_compute; repeat constructor; simpl; intuition discriminate|].
  split; [vm_compute; reflexivity|].
  split; vm_compute; reflexivity.
Qed.
Print Assumptions C07_nonvacuous_nat.

(* (2) IEEE doubles (the kernel's primitive floats) with ltb / leb / (== 1.0),
       zero = 0.0, one = 1.0, F = 0.5 -- the instance the differential tests run.
       (No assumption listing here: it would merely name the kernel primitives
       float, ltb, leb, eqb.) *)
Example C07_nonvacuous_float :
  let lab_a := Lab (TElem [97%N]) [([105%N], [49%N])] None None in
  let lab_b := Lab (TElem [97%N]) [([105%N], [50%N])] None None in
  let lab_c := Lab TComment [] (Some [120%N]) None in
  let lab_r := Lab (TElem [114%N]) [] None None in
  let L := mk_forest [(0, [1; 2; 3])] [(0, lab_r); (1, lab_a); (2, lab_b); (3, lab_c)] 4 in
  let R := mk_forest [(0, [1; 2; 3])] [(0, lab_r); (1, lab_c); (2, lab_b); (3, lab_a)] 4 in
  let leaf := fun a b : str => if str_eqb a b then 1%float else 0.25%float in
  let comb := fun (x : float) (_ _ : nat) => x in
  let opts := fun fast best => MOpts float 0.5%float [UA [105%N]] fast best [] in
  let run := fun fast best =>
    match_nodes float PrimFloat.ltb PrimFloat.leb (fun x => PrimFloat.eqb x 1%float)
                0%float 1%float leaf comb (opts fast best) L R 0 0 in
  (forall fast best, PrimFloat.leb (oF float (opts fast best)) 0%float = false) /\
  PrimFloat.eqb 0%float 1%float = false /\
  NoDup (post_order (S (fnext L)) L 0) /\
  NoDup (post_order (S (fnext R)) R 0) /\
  run false false = Some [(1, 3); (2, 2); (3, 1); (0, 0)] /\
  run true false = Some [(3, 1); (1, 3); (2, 2); (0, 0)] /\
  run false true = Some [(1, 3); (2, 2); (3, 1); (0, 0)].
Proof.
  cbv zeta.
  split; [intros fast best; vm_compute; reflexivity|].
  split; [vm_compute; reflexivity|].
  split; [vm_compute; repeat constructor; simpl; intuition discriminate|].
  split; [vm_compute; repeat constructor; simpl; intuition discriminate|].
  split; [vm_compute; reflexivity|].
  split; vm_compute; reflexivity.
Qed.
