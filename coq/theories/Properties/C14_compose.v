(* C14, composed with C03 -- "with tag-whitespace normalisation on, re-indenting a
   document is invisible to the diff: the edit script is empty."

   C14_reindent_invisible (Properties/C14.v) says that the parser, with
   remove_blank_text on (XV.Whitespace.strip_blank: libxml2's XML_PARSE_NOBLANKS),
   builds THE SAME item tree for a layered document T and for any re-indentation
   reindent s T of it.  Here the item tree is taken to the differ:

   tree_of_item (XV.ComposeWs)   the element tree lxml presents: element.text is the
                                 run before the first child node, child.tail the run
                                 that follows the child, comments are leaves carrying
                                 their text;
   forest_of_item                its pre-order numbering (root = 0), the id-indexed
                                 forest the differ model works on.

   C14_forest_wf        for every item tree whose root is an element and whose elements
                        have pairwise distinct attribute names, the forest is well formed
                        (XV.WF.wf_forest: the hypothesis of all differ theorems).
   C14_empty_script     for every similarity oracle satisfying C03's laws, every option
                        record o (F, uniqueattrs, ignored_attrs, fast_match, best_match),
                        every indentation scheme s and every layered document T (root an
                        element, distinct attribute names), with the same root namespace
                        map on both sides: the two parsed documents are literally the same
                        forest, and XV.Pipeline.diff_model (Differ.match + Differ.diff)
                        returns the EMPTY script and leaves the tree untouched.
   Proofs: XV.ComposeWs (forest_of_tree_wf: pre-order numbering makes every node but the
   root the child of exactly one node), XV.WhitespaceProofs.reindent_invisible,
   XV.EqualDocs.equal_docs_empty_script (C03). *)
From Coq Require Import List NArith Bool Arith.
Import ListNotations.
Require Import XV.Str XV.Forest XV.Matcher XV.Differ XV.WF XV.Pipeline XV.Whitespace XV.ComposeWs.

Theorem C14_forest_wf : forall x : item,
  (match x with IElem _ _ _ => true | _ => false end) = true ->
  attrs_distinctb x = true ->
  wf_forest (forest_of_item x) 0.
Proof. exact forest_of_item_wf. Qed.
Print Assumptions C14_forest_wf.

Theorem C14_empty_script :
  forall (sim : Type) (sim_ltb sim_leb : sim -> sim -> bool) (sim_is_one : sim -> bool)
         (zero one : sim) (leaf_sim : str -> str -> sim) (combine : sim -> nat -> nat -> sim)
         (o : mopts sim) (s : scheme) (T : item) (lns : nsmap),
  (* oracle laws, as in C03 *)
  (forall s, sim_is_one (leaf_sim s s) = true) ->
  (forall m n, sim_is_one m = true -> 0 < n -> sim_is_one (combine m n n) = true) ->
  sim_is_one one = true ->
  (forall x, sim_is_one x = true -> sim_ltb zero x = true) ->
  (forall x, sim_is_one x = true -> sim_leb (oF sim o) x = true) ->
  (ofast sim o = true -> sim_leb (oF sim o) zero = false) ->
  (ofast sim o = true ->
   forall s t n x n', 0 < n -> sim_leb (oF sim o) (combine (leaf_sim s t) 0 n) = true ->
                      sim_is_one x = true -> 0 < n' ->
                      sim_leb (oF sim o) (combine x 0 n') = true) ->
  (* the document *)
  layered T = true ->
  (match T with IElem _ _ _ => true | _ => false end) = true ->
  attrs_distinctb T = true ->
  (forall k v, In (k, v) lns -> ns_get lns k = Some v) ->
  let L := forest_of_item (strip_blank T) in
  let R := forest_of_item (strip_blank (reindent s T)) in
  wf_forest L 0 /\ R = L /\
  diff_model sim sim_ltb sim_leb sim_is_one zero one leaf_sim combine o L R 0 0 lns lns = Some ([], L).
Proof. exact reindent_empty_script. Qed.
Print Assumptions C14_empty_script.

(* Non-vacuity.  T = <r><a k="1">x</a><!--c--><b><d/></b></r> written compactly,
   re-indented with two spaces per level.  T is layered, the conversion gives the
   five-node forest one expects (children of 0: 1 2 3; of 3: 4; text "x" on node 1;
   no tails), the two parsed documents are the same forest and the script
   computes to []; WITHOUT stripping the re-indented document has texts and
   tails made of white space and the script is not empty. *)
Example C14_empty_script_example :
  let T := IElem [114%N] []
             [IElem [97%N] [([107%N], [49%N])] [Whitespace.IText [120%N]];
              IComment [99%N];
              IElem [98%N] [] [IElem [100%N] [] []]] in
  let s := {| sc_tabs := false; sc_width := 2 |} in
  let leaf := fun a b : str => if str_eqb a b then 100 else 25 in
  let comb := fun m c n : nat => if Nat.ltb 0 n && Nat.eqb c n then m else m * 70 / 100 in
  let is_one := fun x => Nat.eqb x 100 in
  let o := MOpts nat 50 [] false false [] in
  let L := forest_of_item (strip_blank T) in
  layered T = true /\ attrs_distinctb T = true /\
  wf_forestb L 0 = true /\
  map (fkids L) [0; 1; 2; 3; 4] = [[1; 2; 3]; []; []; [4]; []] /\
  map (fun n => ltext (flab L n)) [0; 1; 2; 3; 4] = [None; Some [120%N]; Some [99%N]; None; None] /\
  reindent s T <> T /\
  option_map fst (diff_model nat Nat.ltb Nat.leb is_one 0 100 leaf comb o
                    L (forest_of_item (strip_blank (reindent s T))) 0 0 [] []) = Some [] /\
  (* stripping off: the indentation is visible *)
  option_map (fun r => Nat.ltb 0 (length (fst r)))
    (diff_model nat Nat.ltb Nat.leb is_one 0 100 leaf comb o
       (forest_of_item T) (forest_of_item (reindent s T)) 0 0 [] []) = Some true.
Proof.
  cbv zeta. repeat (split; [vm_compute; reflexivity|]).
  split; [vm_compute; discriminate|].
  split; vm_compute; reflexivity.
Qed.
Print Assumptions C14_empty_script_example.
