(* C18 -- the legacy 'old' formatter (formatting.XmlDiffFormatter) is total on
   differ output and prints at least one bracketed entry per edit action.

   Model: XV.OldFormat.old_format (the formatter's handlers written out, the
   tree-tracking step = PatcherDSL.handle_action over the programs translated
   from patch.py); tied to xmldiff/formatting.py + patch.py by harness/props/C18.py
   on every run (output text, entry count or exception class).
   Only statements here; proofs in XV.OldFormatProofs (handlers), XV.PathProofs
   (getpath_unique, path_roundtrip) and XV.PatcherProofs (patcher_refines_spec_ext,
   spec_apply_wf).

   Vocabulary:
     wf_forest L root          the left document is a tidy finite tree (WF.v);
     run_spec root L script    the identity-level script is applicable with the documented
                               (strict) meaning of the actions -- what C01/C05 deliver for
                               Differ output;
     render_script pe root L script = Some gs
                               gs are the namedtuples Differ yields for it: every node written
                               as utils.getpath(node) in the tree as it is before the action;
     script_ok pe root env L script   (PatcherProofs) along the script, the prefixes that pe
                               prints are bound in the shared nsmap (root declarations, then
                               InsertNamespace actions) and the names are printable XPath names;
     old_ns_prefix_named       no InsertNamespace(None, ..) / DeleteNamespace(None): documents
                               whose roots differ in the DEFAULT namespace declaration are the
                               known finding "default-namespace-differs" (C18_default_namespace_refuted);
     comment_texts_present     InsertComment carries a str (lxml's comment.text is never None);
     old_entries               the tuples the handlers yield, one bracketed entry each;
     all_str / entry_text      a tuple of strs t is printed as "[" ++ ", ".join(t) ++ "]". *)
From Coq Require Import List NArith Arith Bool.
Import ListNotations.
Require Import XV.Str XV.Json XV.TextFormat XV.Forest XV.Matcher XV.Differ XV.Spec XV.WF XV.Path
               XV.PatcherDSL XV.Render XV.PathProofs XV.PatcherProofs XV.OldFormat XV.OldFormatProofs.

(* formatting the empty script gives the empty text *)
Theorem C18_empty : forall pe f root nsm, old_format pe f root nsm [] = OOk [].
Proof. exact old_format_nil. Qed.
Print Assumptions C18_empty.

(* whenever a handler returns, it has yielded at least one tuple *)
Theorem C18_handler_yields : forall pe root s a ts,
  old_handle pe root s a = OOk ts -> 1 <= length ts.
Proof. exact old_handle_yields. Qed.
Print Assumptions C18_handler_yields.

(* a run that does not raise collects at least one tuple (= one bracketed entry) per action *)
Theorem C18_entries_if_ok : forall pe f root nsm acts ts,
  old_entries pe f root nsm acts = OOk ts -> length acts <= length ts.
Proof. intros pe f root nsm acts ts. apply old_loop_length. Qed.
Print Assumptions C18_entries_if_ok.

(* one action, in the state it was rendered in: the handler returns tuples of strs
   (paths resolve to their nodes; position-1 resp. the adjusted position is a valid
   child index; the renamed attribute is present) *)
Theorem C18_handler_total : forall pe root env f vars ia f',
  wf_forest f root -> env_agrees pe env f root -> names_ok pe f root ->
  old_ns_named1 ia -> comment_text_present1 ia ->
  spec_apply root f ia = Some f' ->
  exists ts, old_handle pe root (PS f env vars) (render pe root f ia) = OOk ts /\ Forall all_str ts.
Proof. exact old_handle_spec. Qed.
Print Assumptions C18_handler_total.

(* THE PROPERTY: on the actions Differ yields for an applicable script the formatter
   does not raise, the text is the yielded tuples printed one per line, and there
   is at least one tuple per action *)
Theorem C18_total : forall pe L root nsm script gs T,
  wf_forest L root ->
  script_ok pe root (nsmap_env nsm) L script ->
  run_spec root L script = Some T ->
  render_script pe root L script = Some gs ->
  old_ns_prefix_named script -> comment_texts_present script ->
  exists ts txt,
    old_entries pe L root nsm gs = OOk ts /\
    old_format pe L root nsm gs = OOk txt /\
    Forall all_str ts /\
    txt = join [10%N] (map entry_text ts) /\
    length script <= length ts.
Proof. exact old_format_total. Qed.
Print Assumptions C18_total.

(* the same, counting the entries as a function of the inputs *)
Theorem C18_total_count : forall pe L root nsm script gs T,
  wf_forest L root ->
  script_ok pe root (nsmap_env nsm) L script ->
  run_spec root L script = Some T ->
  render_script pe root L script = Some gs ->
  old_ns_prefix_named script -> comment_texts_present script ->
  exists txt, old_format pe L root nsm gs = OOk txt /\ length script <= old_entry_count pe L root nsm gs.
Proof. exact old_format_total_count. Qed.
Print Assumptions C18_total_count.

(* The premises are satisfiable: <a xmlns:p="urn:p" x="1"><b/><c/><p:d/></a> with
   InsertNode at position 2, MoveNode of the first child to position 2 of the same
   parent, RenameAttrib, a new prefix, an element in it, its text.  The last two
   clauses are the model's answer = the text the implementation returns. *)
Example C18_premises_satisfiable :
  wf_forest ex18_L 0 /\
  script_ok ex18_pe 0 (nsmap_env ex18_nsm) ex18_L ex18_script /\
  (exists T, run_spec 0 ex18_L ex18_script = Some T) /\
  render_script ex18_pe 0 ex18_L ex18_script = Some ex18_gs /\
  old_ns_prefix_named ex18_script /\ comment_texts_present ex18_script /\
  old_format ex18_pe ex18_L 0 ex18_nsm ex18_gs = OOk ex18_text /\
  old_entry_count ex18_pe ex18_L 0 ex18_nsm ex18_gs = 7.
Proof. exact ex18_premises. Qed.
Print Assumptions C18_premises_satisfiable.

(* Without old_ns_prefix_named the statement is false (known finding
   "default-namespace-differs"): DeleteNamespace(None), which Differ yields when only
   the left root declares a default namespace, makes the final join raise TypeError
   although every other premise holds. *)
Theorem C18_default_namespace_refuted :
  let script := [IDelNs None] in
  wf_forest ex18_L 0 /\ script_ok ex18_pe 0 (nsmap_env ex18_nsm) ex18_L script /\
  (exists T, run_spec 0 ex18_L script = Some T) /\
  comment_texts_present script /\
  exists gs, render_script ex18_pe 0 ex18_L script = Some gs /\
             old_format ex18_pe ex18_L 0 ex18_nsm gs = OErr OTypeError.
Proof. exact ex18_default_namespace. Qed.
Print Assumptions C18_default_namespace_refuted.
