(* C14 (supplement) -- "with whitespace normalisation off, re-indenting a document
   is reported as text changes, and that script still round-trips."

   Models: XV.Matcher.match_nodes (Differ.match), XV.Differ.diff_given
   (Differ.diff), XV.Spec.run_spec (the documented meaning of the actions); the
   similarity of two node texts is an ORACLE.

   C14_only_text_actions: for every oracle satisfying the laws of C03 (see
   Properties/C03.v; the last two are used by fast_match only), every option
   record o (any F, uniqueattrs, ignored_attrs, fast_match, best_match), and two
   well-formed documents L, R that have the same shape, tags and attributes
   (XV.TextOnly.same_doc_mod_text: same ids -- pre-order numbering --, same child
   lists, equal tags, attribute lists equal up to order) while the text and the
   tail of EVERY node are arbitrary on both sides, provided
     - the similarity strings Differ.node_text of corresponding nodes agree
       (node_text joins the tag, the text nodes and the attributes, strips, and
       collapses white space: re-indenting a layered document -- elements contain
       child elements or text, not both -- only adds or changes white-space-only
       text nodes, which disappear from that string), and
     - corresponding comments have the same text,
   then
     * match() returns the identity matching;
     * diff() returns exactly, in breadth-first order, one UpdateTextIn(n, text
       of n in R) for each node whose text differs and one UpdateTextAfter(n, tail
       of n in R) for each node whose tail differs (text_acts), and nothing else:
       only text actions; the script is empty iff all texts and tails are equal;
     * replaying the script on L succeeds, yields the differ's working tree, and
       that tree is the right document (doc_equiv: tree_equivb up to the ignored
       attributes) -- the script round-trips.
   C14_reindent_text_actions: the same conclusion with the node_text hypothesis
   replaced by its white-space characterisation: for every document node, the text
   (and the tail) is, on the two sides, equal or white-space-only (str.isspace on
   every character; None counts as empty) -- the situation of a re-indented
   layered document.  C14_node_text_reindent is the underlying fact about
   node_text = cleanup_whitespace(" ".join(...).strip()): white-space-only text
   nodes do not show in it (XV.TextOnlyWs.norm_join_filter).

   C14_text_example: hypotheses satisfiable, conclusion computes, on
     <r><a>x</a><b><c/></b></r>  vs  <r>\n  <a>x</a>\n  <b>\n    <c/>\n  </b>\n</r>
   (4 nodes; indentation kept as texts and tails), nat-valued oracle (percent),
   default / best_match / fast_match F=50 / fast_match F=80: the five text
   actions the Python implementation returns on these documents.
   Proofs: XV.TextOnly, XV.TextOnlyWs (with XV.EqualDocsMatch, XV.DifferSound). *)
From Coq Require Import List NArith ZArith Bool Arith.
Import ListNotations.
Require Import XV.Str XV.Forest XV.Matcher XV.Differ XV.Spec XV.WF XV.EqualDocs XV.TextOnly XV.TextOnlyWs.

Theorem C14_only_text_actions :
  forall (sim : Type) (sim_ltb sim_leb : sim -> sim -> bool) (sim_is_one : sim -> bool)
         (zero one : sim) (leaf_sim : str -> str -> sim) (combine : sim -> nat -> nat -> sim)
         (o : mopts sim) (L R : forest) (root : id) (lns : nsmap),
  (forall s, sim_is_one (leaf_sim s s) = true) ->
  (forall m n, sim_is_one m = true -> 0 < n -> sim_is_one (combine m n n) = true) ->
  sim_is_one one = true ->
  (forall x, sim_is_one x = true -> sim_ltb zero x = true) ->
  (forall x, sim_is_one x = true -> sim_leb (oF sim o) x = true) ->
  (ofast sim o = true -> sim_leb (oF sim o) zero = false) ->
  (ofast sim o = true ->
   forall s t n x n', 0 < n -> sim_leb (oF sim o) (combine (leaf_sim s t) 0 n) = true ->
                      sim_is_one x = true -> 0 < n' ->
                      sim_leb (oF sim o) (combine x 0 n') = true) ->
  wf_forest L root -> wf_forest R root ->
  same_doc_mod_text L R ->
  (forall n, desc L root n -> node_text sim o R n = node_text sim o L n) ->
  (forall n, desc L root n -> is_comment (ltag (flab L n)) = true ->
             otext (ltext (flab R n)) = otext (ltext (flab L n))) ->
  (forall k v, In (k, v) lns -> ns_get lns k = Some v) ->
  exists m script Wf,
    match_nodes sim sim_ltb sim_leb sim_is_one zero one leaf_sim combine o L R root root = Some m /\
    (forall l r, In (l, r) m -> l = r) /\
    (forall n, desc L root n -> In (n, n) m) /\
    diff_given (oignored sim o) R root L root lns lns m = Some (script, Wf) /\
    script = flat_map (text_acts L R) (bfs R (S (fnext R)) [root]) /\
    Forall is_text_action script /\
    (forall n t, In (IText n t) script <->
                 desc L root n /\ ltext (labof L n) <> ltext (labof R n) /\ t = ltext (labof R n)) /\
    (forall n t, In (ITail n t) script <->
                 desc L root n /\ ltail (labof L n) <> ltail (labof R n) /\ t = ltail (labof R n)) /\
    (script = [] <->
     forall n, desc L root n -> ltext (labof L n) = ltext (labof R n) /\
                                ltail (labof L n) = ltail (labof R n)) /\
    run_spec root L script = Some Wf /\
    doc_equiv (oignored sim o) Wf root R root.
Proof. exact text_only_differences_text_only_script. Qed.
Print Assumptions C14_only_text_actions.

Theorem C14_node_text_reindent :
  forall (sim : Type) (o : mopts sim) (L R : forest) (root n : id),
  wf_forest L root -> same_doc_mod_text L R -> n < fnext L ->
  ws_rel (otext (ltext (flab L n))) (otext (ltext (flab R n))) ->
  (forall c, In c (fkids L n) -> ws_rel (otext (ltail (flab L c))) (otext (ltail (flab R c)))) ->
  node_text sim o R n = node_text sim o L n.
Proof. exact node_text_reindent. Qed.
Print Assumptions C14_node_text_reindent.

Theorem C14_reindent_text_actions :
  forall (sim : Type) (sim_ltb sim_leb : sim -> sim -> bool) (sim_is_one : sim -> bool)
         (zero one : sim) (leaf_sim : str -> str -> sim) (combine : sim -> nat -> nat -> sim)
         (o : mopts sim) (L R : forest) (root : id) (lns : nsmap),
  (forall s, sim_is_one (leaf_sim s s) = true) ->
  (forall m n, sim_is_one m = true -> 0 < n -> sim_is_one (combine m n n) = true) ->
  sim_is_one one = true ->
  (forall x, sim_is_one x = true -> sim_ltb zero x = true) ->
  (forall x, sim_is_one x = true -> sim_leb (oF sim o) x = true) ->
  (ofast sim o = true -> sim_leb (oF sim o) zero = false) ->
  (ofast sim o = true ->
   forall s t n x n', 0 < n -> sim_leb (oF sim o) (combine (leaf_sim s t) 0 n) = true ->
                      sim_is_one x = true -> 0 < n' ->
                      sim_leb (oF sim o) (combine x 0 n') = true) ->
  wf_forest L root -> wf_forest R root ->
  same_doc_mod_text L R ->
  (forall n, desc L root n ->
     ws_rel (otext (ltext (flab L n))) (otext (ltext (flab R n))) /\
     ws_rel (otext (ltail (flab L n))) (otext (ltail (flab R n)))) ->
  (forall n, desc L root n -> is_comment (ltag (flab L n)) = true ->
             otext (ltext (flab R n)) = otext (ltext (flab L n))) ->
  (forall k v, In (k, v) lns -> ns_get lns k = Some v) ->
  exists m script Wf,
    match_nodes sim sim_ltb sim_leb sim_is_one zero one leaf_sim combine o L R root root = Some m /\
    (forall l r, In (l, r) m -> l = r) /\
    (forall n, desc L root n -> In (n, n) m) /\
    diff_given (oignored sim o) R root L root lns lns m = Some (script, Wf) /\
    script = flat_map (text_acts L R) (bfs R (S (fnext R)) [root]) /\
    Forall is_text_action script /\
    (forall n t, In (IText n t) script <->
                 desc L root n /\ ltext (labof L n) <> ltext (labof R n) /\ t = ltext (labof R n)) /\
    (forall n t, In (ITail n t) script <->
                 desc L root n /\ ltail (labof L n) <> ltail (labof R n) /\ t = ltail (labof R n)) /\
    (script = [] <->
     forall n, desc L root n -> ltext (labof L n) = ltext (labof R n) /\
                                ltail (labof L n) = ltail (labof R n)) /\
    run_spec root L script = Some Wf /\
    doc_equiv (oignored sim o) Wf root R root.
Proof. exact reindent_text_only_script. Qed.
Print Assumptions C14_reindent_text_actions.

Example C14_text_example :
  let L := ex_ws_doc false in
  let R := ex_ws_doc true in
  let is_one := fun x => Nat.eqb x 100 in
  let idm := [(1, 1); (3, 3); (2, 2); (0, 0)] in
  let nl := fun k => Some (10%N :: repeat 32%N k) in
  let script := [IText 0 (nl 2); ITail 1 (nl 2); IText 2 (nl 4); ITail 2 (nl 0); ITail 3 (nl 2)] in
  (* hypotheses *)
  wf_forest L 0 /\ wf_forest R 0 /\ same_doc_mod_text L R /\
  (forall F fast best n, desc L 0 n ->
     node_text nat (ex_opts F fast best) R n = node_text nat (ex_opts F fast best) L n) /\
  (forall n, desc L 0 n -> is_comment (ltag (flab L n)) = true ->
     otext (ltext (flab R n)) = otext (ltext (flab L n))) /\
  (* conclusion, by computation *)
  (let run := fun F fast best =>
     match_nodes nat Nat.ltb Nat.leb is_one 0 100 ex_leaf ex_comb (ex_opts F fast best) L R 0 0 in
   run 50 false false = Some idm /\ run 50 false true = Some idm /\
   run 50 true false = Some idm /\ run 80 true false = Some idm /\
   option_map fst (diff_given [] R 0 L 0 ex_lns ex_lns idm) = Some script /\
   Forall is_text_action script /\
   match run_spec 0 L script with
   | Some Wf => tree_equivb (doc_tree Wf 0) (doc_tree R 0)
   | None => false
   end = true).
Proof.
  exact (conj (ex_ws_wf false) (conj (ex_ws_wf true) (conj ex_ws_mod
        (conj ex_ws_node_text (conj ex_ws_comments ex_ws_computes))))).
Qed.
Print Assumptions C14_text_example.
