(* C10 -- rejecting every marked change in the XML formatter's output reproduces the left document.

   Model: XV.XmlFmt, tied to xmldiff/formatting.py by harness/xmlfmt_corr.py on every run; projection:
   XV.Projections.reject.  Only statements here; proofs in XV.XmlFmtProofs0-5.

   Vocabulary (see also Properties/C09.v)
     L                    the PREPARED left document as the formatter's working tree (comments removed);
     gs                   ANY list of actions (namedtuples) -- the reject side needs nothing about the script beyond
                          the side conditions run_ok on the run: a text update meets a text without diff markup
                          (each text is updated at most once), a node is renamed at most once, inserted tags are not
                          diff:insert/delete/replace, action texts have no private-use character, attribute actions do
                          not name diff: attributes, the tail of the root is not updated.  True of Differ scripts; evaluated
                          by the harness (run_okb) on every generated script (a TESTED premise, reported as such);
     unmarked L           no diff:insert / diff:rename attribute in the document;
     erase_attrs          the document without its attributes.

     run_ok_attr          side conditions on the run for the ATTRIBUTE actions (XmlFmtProofsF.step_ok_attr): attribute names are
                          non-empty, not in the diff namespace and free of ; : { } (so: no namespaced attribute names), new
                          values are free of ; { }, on one node a name is touched by at most one attribute action ("fresh" for
                          the node's annotations), InsertAttrib / RenameAttrib do not overwrite an existing attribute.  True of
                          Differ scripts on such documents; evaluated by the harness (run_ok_attrb): a TESTED premise;
     attrs_ok L           attribute names of a node are distinct and values free of ; { };
     xequiv_r ws a b      as xequiv, except that the value WILD ("not recorded": the value of a deleted attribute) on
                          the left matches any value.

   PARTIAL.  Proved, for configurations without text tags and without use_replace: rejecting every marked change gives
   back the left document -- TAGS (diff:rename undone), STRUCTURE (inserted elements and moved copies dropped with the
   text region after them, deleted and moved-away elements restored), TEXTS and TAILS (diff:insert wrappers dropped,
   diff:delete wrappers restored), and ATTRIBUTES (names and values restored from the diff:*-attr annotations, deleted
   attributes with an unrecorded value) -- up to whitespace normalisation when normalize & WS_TEXT
   (C10_reject_attrs_partial; C10_reject_partial is the same without the attribute premises and without attributes).
   Missing for the full statement:
   (1) namespaced attribute names and names/values containing ; : { } (the annotation strings are then ambiguous:
       "a;b" is one value or two) -- excluded by run_ok_attr / attrs_ok;
   (2) text_tags <> [] and use_replace = true: correspondence + reject oracle only (and use_replace with text_tags is
       the open finding "use_replace-with-text_tags": old-text then holds raw placeholder characters);
   (3) the premises run_ok / run_ok_attr are conditions on the run rather than consequences of "script = Differ output". *)
From Coq Require Import List NArith ZArith Bool.
Import ListNotations.
Require Import XV.Str XV.Json XV.TextFormat XV.Forest XV.Path XV.XmlFmt XV.Projections
               XV.XmlFmtProofs1 XV.XmlFmtProofs2 XV.XmlFmtProofs3 XV.XmlFmtProofs4 XV.XmlFmtProofs5 XV.XmlFmtProofs9 XV.XmlFmtProofsF.
Require XV.Placeholder XV.PlaceholderUndo XV.DMP.
Local Open Scope N_scope.

Theorem C10_reject_partial :
  forall (c : cfg) (o : oracle) (rootns : list (option str * str)) (gs : list gaction) (L T : xtree),
  c_tt c = [] -> c_replace c = false ->
  PlaceholderUndo.npua L = true -> clean_tags L -> unmarked L ->
  run_ok c o rootns (FS L Placeholder.ph_init [(Some DIFF_PREFIX, DIFF_NS)]) gs ->
  xml_format c o rootns Placeholder.ph_init gs L = FOk T ->
  xequiv (ws_text c) (erase_attrs (reject T)) (erase_attrs L).
Proof. intros c o rootns gs L T _. exact (reject_format c o rootns gs L T). Qed.
Print Assumptions C10_reject_partial.

(* the same WITH the attributes *)
Theorem C10_reject_attrs_partial :
  forall (c : cfg) (o : oracle) (rootns : list (option str * str)) (gs : list gaction) (L T : xtree),
  c_tt c = [] -> c_replace c = false ->
  PlaceholderUndo.npua L = true -> clean_tags L -> nodiff L -> attrs_ok L ->
  run_ok c o rootns (FS L Placeholder.ph_init [(Some DIFF_PREFIX, DIFF_NS)]) gs ->
  run_ok_attr c o rootns (FS L Placeholder.ph_init [(Some DIFF_PREFIX, DIFF_NS)]) gs ->
  xml_format c o rootns Placeholder.ph_init gs L = FOk T ->
  xequiv_r (ws_text c) (reject T) L.
Proof. intros c o rootns gs L T _. exact (reject_format_attrs c o rootns gs L T). Qed.
Print Assumptions C10_reject_attrs_partial.

(* the handlers never change what rejection reads, one action at a time (the refinement step) *)
Theorem C10_reject_step :
  forall (c : cfg) (o : oracle) (rootns : list (option str * str)) (st : fstate) (d : dact) (st' : fstate),
  c_replace c = false -> winv (fs_tree st) -> fs_ph st = Placeholder.ph_init -> step_ok rootns st d ->
  handle_d c o rootns st d = FOk st' ->
  winv (fs_tree st') /\ fs_ph st' = Placeholder.ph_init /\
  vr (ws_text c) (fs_tree st') = vr (ws_text c) (fs_tree st).
Proof. intros c o rootns st d st' H. exact (step_reject c o rootns H st d st'). Qed.
Print Assumptions C10_reject_step.

(* finalize never fails on the trees the handlers build (no IndexError in undo_string), and the two
   projections of its result are the two views of the working tree *)
Theorem C10_finalize_views : forall W, run_tree W -> clean_tags W -> plain (xtail W) ->
  exists T, finalize Placeholder.ph_init W = FOk T /\
            accept T = set_tail (aw W) (xtail T) /\ reject T = set_tail (rw W) (xtail T).
Proof. exact finalize_run. Qed.
Print Assumptions C10_finalize_views.

(* Non-vacuity: <a><b>xy</b>t<c/></a> with the script of Properties/C09.v (move, text update, rename, attribute,
   insert + delete), given as the namedtuples the differ yields. *)
Definition exW : xtree :=
  XNode [97] [] None [] [XNode [98] [] (Some [120;121]) [116] []; XNode [99] [] None [] []].
Definition s_ (l : list N) : str := l.
Definition exGs : list gaction :=
  [GA (s_ [77;111;118;101;78;111;100;101]) [PStr [47;97;47;99;91;49;93]; PStr [47;97;47;98;91;49;93]; PInt 0];
   GA (s_ [85;112;100;97;116;101;84;101;120;116;73;110]) [PStr [47;97;47;98;91;49;93]; PStr [120;122]];
   GA (s_ [82;101;110;97;109;101;78;111;100;101]) [PStr [47;97;47;98;47;99;91;49;93]; PStr [100]];
   GA (s_ [73;110;115;101;114;116;65;116;116;114;105;98]) [PStr [47;97;91;49;93]; PStr [107]; PStr [49]];
   GA (s_ [73;110;115;101;114;116;78;111;100;101]) [PStr [47;97;91;49;93]; PStr [101]; PInt 0];
   GA (s_ [68;101;108;101;116;101;78;111;100;101]) [PStr [47;97;47;101;91;49;93]]].
Definition exO : oracle :=
  Orc {| DMP.isalnum := fun c => (97 <=? c) && (c <=? 122); DMP.isspace := fun c => c =? 32 |} (fun _ => false).
Definition exC : cfg := Cfg 0 false [] [].

Example C10_example :
  exists T, xml_format exC exO [] Placeholder.ph_init exGs exW = FOk T /\
            xequiv (ws_text exC) (erase_attrs (reject T)) (erase_attrs exW) /\
            xequiv_r (ws_text exC) (reject T) exW.
Proof.
  destruct (xml_format exC exO [] Placeholder.ph_init exGs exW) as [T|e] eqn:E; [|vm_compute in E; discriminate].
  exists T. split; [reflexivity|]. split.
  - apply (C10_reject_partial exC exO [] exGs exW T eq_refl eq_refl).
    + reflexivity.
    + repeat (constructor; try reflexivity).
    + repeat (constructor; try reflexivity).
    + apply run_okb_sound. vm_compute. reflexivity.
    + exact E.
  - apply (C10_reject_attrs_partial exC exO [] exGs exW T eq_refl eq_refl).
    + reflexivity.
    + repeat (constructor; try reflexivity).
    + repeat (constructor; try reflexivity).
    + repeat (constructor; try (split; constructor)).
    + apply run_okb_sound. vm_compute. reflexivity.
    + apply run_ok_attrb_sound. vm_compute. reflexivity.
    + exact E.
Qed.
Print Assumptions C10_example.
