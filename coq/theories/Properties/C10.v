(* C10 -- rejecting every marked change in the XML formatter's output reproduces the left document.

   Model: XV.XmlFmt, tied to xmldiff/formatting.py by harness/xmlfmt_corr.py on every run; projection:
   XV.Projections.reject.  Only statements here; proofs in XV.XmlFmtProofs0-5, R2, E, F.

   Vocabulary (see also Properties/C09.v)
     L                    the PREPARED left document as the formatter's working tree (comments removed);
     gs                   ANY list of actions (namedtuples) -- the reject side needs nothing about the script beyond
                          the side conditions run_ok on the run: a text update meets a text without diff markup
                          (each text is updated at most once), a node is renamed at most once, inserted tags are not
                          diff:insert/delete/replace, action texts have no private-use character, attribute actions do
                          not name diff: attributes, the tail of the root is not updated; with use_replace only: the
                          maker has a free private-use code point for every character of the new text of a text update
                          (room_ok; 6393 in all).  True of Differ scripts on documents of ordinary size; evaluated
                          by the harness (run_okb) on every generated script (a TESTED premise, reported as such);
     tinv s               the maker s is one without text-tag placeholders: the six built-in placeholders, then only
                          diff:replace openers (element diff:replace with the old text in old-text), counter in range;
     sext s s'            every placeholder of s is a placeholder of s' with the same entry (makers only grow);
     S                    in the step / finalize statements: the maker the strings of the working tree are READ with --
                          any maker with tinv S that extends the maker of the step's result (in C10_reject_partial it is
                          the final maker; with use_replace = false every maker is Placeholder.ph_init);
     unmarked L           no diff:insert / diff:rename attribute in the document;
     erase_attrs          the document without its attributes.

     run_ok_attr          side conditions on the run for the ATTRIBUTE actions (XmlFmtProofsF.step_ok_attr): attribute names are
                          non-empty, not in the diff namespace and free of ; : { } (so: no namespaced attribute names), new
                          values are free of ; { }, on one node a name is touched by at most one attribute action ("fresh" for
                          the node's annotations), InsertAttrib / RenameAttrib do not overwrite an existing attribute.  True of
                          Differ scripts on such documents; evaluated by the harness (run_ok_attrb): a TESTED premise;
     attrs_ok L           attribute names of a node are distinct and values free of ; { };
     xequiv_r ws a b      as xequiv, except that the value WILD ("not recorded": the value of a deleted attribute) on
                          the left matches any value.

   PARTIAL.  Proved, for configurations without text tags, with or without use_replace: rejecting every marked change
   gives back the left document -- TAGS (diff:rename undone), STRUCTURE (inserted elements and moved copies dropped with
   the text region after them, deleted and moved-away elements restored), TEXTS and TAILS (diff:insert wrappers dropped,
   diff:delete wrappers restored, diff:replace wrappers replaced by their old-text), and ATTRIBUTES (names and values restored from the diff:*-attr annotations, deleted
   attributes with an unrecorded value) -- up to whitespace normalisation when normalize & WS_TEXT
   (C10_reject_attrs_partial; C10_reject_partial is the same without the attribute premises and without attributes).
   Missing for the full statement:
   (1) namespaced attribute names and names/values containing ; : { } (the annotation strings are then ambiguous:
       "a;b" is one value or two) -- excluded by run_ok_attr / attrs_ok;
   (2) text_tags <> []: proved only at the level of the STRING one text update writes (C10_texttag_update_flat_partial,
       use_replace = false): read flattened with every marked change rejected it is the flattened old text (vocabulary
       and scope: Properties/C09.v, C09_texttag_update_flat_partial); the tree level is covered by correspondence +
       reject oracle only (and use_replace with text_tags is the open finding "use_replace-with-text_tags": old-text
       then holds raw placeholder characters);
   (3) the premises run_ok / run_ok_attr are conditions on the run rather than consequences of "script = Differ output". *)
From Coq Require Import List NArith ZArith Bool.
Import ListNotations.
Require Import XV.Str XV.Json XV.TextFormat XV.Forest XV.Path XV.XmlFmt XV.Projections
               XV.XmlFmtProofs1 XV.XmlFmtProofs2 XV.XmlFmtProofsR2 XV.XmlFmtProofs3 XV.XmlFmtProofs4 XV.XmlFmtProofs5 XV.XmlFmtProofs9 XV.XmlFmtProofsF XV.XmlFmtProofsT1
               XV.Differ XV.WF XV.Render XV.PrefixProofs XV.XmlFmtDiffer3 XV.XmlFmtDiffer.
Require XV.Placeholder XV.PlaceholderUndo XV.DMP.
Local Open Scope N_scope.

Theorem C10_reject_partial :
  forall (c : cfg) (o : oracle) (rootns : list (option str * str)) (gs : list gaction) (L T : xtree),
  c_tt c = [] ->
  PlaceholderUndo.npua L = true -> clean_tags L -> unmarked L ->
  run_ok c o rootns (FS L Placeholder.ph_init [(Some DIFF_PREFIX, DIFF_NS)]) gs ->
  xml_format c o rootns Placeholder.ph_init gs L = FOk T ->
  xequiv (ws_text c) (erase_attrs (reject T)) (erase_attrs L).
Proof. intros c o rootns gs L T _. exact (reject_format c o rootns gs L T). Qed.
Print Assumptions C10_reject_partial.

(* the same WITH the attributes *)
Theorem C10_reject_attrs_partial :
  forall (c : cfg) (o : oracle) (rootns : list (option str * str)) (gs : list gaction) (L T : xtree),
  c_tt c = [] ->
  PlaceholderUndo.npua L = true -> clean_tags L -> nodiff L -> attrs_ok L ->
  run_ok c o rootns (FS L Placeholder.ph_init [(Some DIFF_PREFIX, DIFF_NS)]) gs ->
  run_ok_attr c o rootns (FS L Placeholder.ph_init [(Some DIFF_PREFIX, DIFF_NS)]) gs ->
  xml_format c o rootns Placeholder.ph_init gs L = FOk T ->
  xequiv_r (ws_text c) (reject T) L.
Proof. intros c o rootns gs L T _. exact (reject_format_attrs c o rootns gs L T). Qed.
Print Assumptions C10_reject_attrs_partial.

(* FOR THE DIFFER'S OWN SCRIPTS the run-level premises (fscript_ok, names_plain, run_ok, iact_plain) are THEOREMS
   (XV.XmlFmtDiffer): the statement below has premises about the two documents, the matching and the configuration only.
     L, R                 the two PREPARED documents as forests (comments removed); m any valid matching of them;
     lns, rns             the namespace declarations of the two root elements; pro the namespace prologue Differ.diff
                          emits for them (InsertNamespace / DeleteNamespace actions);
     script               pro ++ out (gen_script [] R rootR L rootL m): the model of Differ.diff (XV.Differ) for that matching;
     ns_decl_okb, doc_names_okb   the namespace / printable-name conditions of PrefixProofs (C13): every namespace used is
                          declared on a root, no prefix is bound to two URIs, names are printable XPath names;
     doc_okb f            every node slot of f is an element; tags, attribute names and values, texts and tails contain no
                          private-use character; tags and attribute names are not in the diff namespace (XmlFmtDiffer3);
     text_size R rootR    the number of characters of all texts and tails of R; only with use_replace: at most 6393 (one
                          private-use code point per replaced segment is then always available).
   Proof idea for run_ok: the breadth-first phase visits every right node once; the text / tail update and the rename
   of a visit aim at the node's partner; partners of different nodes differ (XmlFmtDiffer2.gen_script_parts), so no node
   is updated twice, and a node that has not been updated yet still carries its plain original text (XmlFmtDiffer1.J). *)
Theorem C10_reject_differ :
  forall (c : cfg) (o : oracle) (pe : penv) (L R : forest) (rootL rootR : id) (lns rns : nsmap) (m : list (id * id)) (pro : list iact),
  c_tt c = [] ->
  wf_forest L rootL -> wf_forest R rootR -> valid_matching L R rootL rootR m ->
  ns_prologue lns rns = Some pro ->
  ns_decl_okb pe lns rns L rootL R rootR = true -> doc_names_okb pe L rootL = true -> doc_names_okb pe R rootR = true ->
  doc_okb L = true -> doc_okb R = true ->
  (c_replace c = true -> text_size R rootR <= 6393) ->
  let script := pro ++ out (gen_script [] R rootR L rootL m) in
  let W := remove_comments (doc_tree L rootL) in
  exists gs T, render_script pe rootL L script = Some gs /\ xml_format c o lns Placeholder.ph_init gs W = FOk T /\
               xequiv (ws_text c) (erase_attrs (reject T)) (erase_attrs W).
Proof. intros c o pe L R rootL rootR lns rns m pro _. exact (differ_reject c o pe L R rootL rootR lns rns m pro). Qed.
Print Assumptions C10_reject_differ.

(* non-vacuity: <a><b>xy</b>t<c/></a> -> <a k="1"><b>xz</b>t<d/></a>, matching a-a, b-b, c-d: every premise by computation *)
Example C10_reject_differ_example :
  (wf_forest dx_L 0%nat /\ wf_forest dx_R 0%nat /\ valid_matching dx_L dx_R 0%nat 0%nat dx_m /\ ns_prologue [] [] = Some [] /\
   ns_decl_okb dx_pe [] [] dx_L 0%nat dx_R 0%nat = true /\ doc_names_okb dx_pe dx_L 0%nat = true /\ doc_names_okb dx_pe dx_R 0%nat = true /\
   doc_okb dx_L = true /\ doc_okb dx_R = true /\ text_size dx_R 0%nat <= 6393).
Proof. exact dx_premises. Qed.
Print Assumptions C10_reject_differ_example.

(* the handlers never change what rejection reads, one action at a time (the refinement step); the maker only grows *)
Theorem C10_reject_step :
  forall (S : Placeholder.state) (c : cfg) (o : oracle) (rootns : list (option str * str)) (st : fstate) (d : dact) (st' : fstate),
  tinv S -> winv S (fs_tree st) -> tinv (fs_ph st) -> sext (fs_ph st') S -> step_ok rootns st d -> room_ok c st d ->
  handle_d c o rootns st d = FOk st' ->
  winv S (fs_tree st') /\ (tinv (fs_ph st') /\ sext (fs_ph st) (fs_ph st')) /\
  vr S (ws_text c) (fs_tree st') = vr S (ws_text c) (fs_tree st).
Proof. intros S c o rootns st d st' H. exact (step_reject S H c o rootns st d st'). Qed.
Print Assumptions C10_reject_step.

(* finalize never fails on the trees the handlers build (no IndexError in undo_string), and the two
   projections of its result are the two views of the working tree *)
Theorem C10_finalize_views : forall S W, tinv S -> run_tree S W -> clean_tags W -> plain (xtail W) ->
  exists T, finalize S W = FOk T /\
            accept T = set_tail (aw W) (xtail T) /\ reject T = set_tail (rw S W) (xtail T).
Proof. intros S W H. exact (finalize_run S H W). Qed.
Print Assumptions C10_finalize_views.

(* what a text update writes (XmlFmtProofsR2.make_diff_tags_gen): a run of pieces whose rejected reading is the old
   text and whose accepted reading is the new text *)
Theorem C10_text_update :
  forall (c : cfg) (o : oracle) (s : Placeholder.state) (left right : str) (in_tail : bool),
  tinv s -> plain left -> plain right ->
  (c_replace c = true -> Placeholder.ctr s + N.of_nat (length (norm_if c right)) <= Placeholder.PUA_END) ->
  exists s' ps, make_diff_tags c o s left right in_tail = FOk (s', encp ps, match ps with [] => false | _ => true end) /\
     tinv s' /\ sext s s' /\ Forall (piece_ok s') ps /\
     rstr s' (encp ps) = norm_if c left /\ astr (encp ps) = norm_if c right.
Proof. exact text_update_readings. Qed.
Print Assumptions C10_text_update.

(* WITH text tags (use_replace = false), one text update, at the level of the string written into node.text:
     s               the maker after prepare(): pinv s (table invariants; a marked element key holds the element it
                     was filed with; the keys of the four wrapper placeholders are attribute-free), capart s (the close
                     placeholder of a formatting element is not a wrapper placeholder), wf_cls (the close placeholder of
                     an OPEN entry is a CLOSE entry);
     txt_ok s c      a character of the two texts is not a wrapper placeholder, and is a placeholder of s (if it stands
                     for an element, the element carries none of diff:insert/delete(-formatting)) or lies outside the
                     private-use range;
     flat0 s y       the flattened content of y: characters and element placeholders (atom_of: the table key of the
                     element, the four marks removed), OPEN / CLOSE placeholders erased;
     fl false s' false x   x read flattened with every marked change rejected (XmlFmtProofsT1). *)
Theorem C10_texttag_update_flat_partial :
  forall (c : cfg) (o : oracle) (s : Placeholder.state) (left right : str) (s' : Placeholder.state) (x : str) (any : bool),
  c_replace c = false -> pinv s -> DMP.wf_cls (cls_of s) -> capart s ->
  Forall (txt_ok s) left -> Forall (txt_ok s) right ->
  make_diff_tags c o s left right false = FOk (s', x, any) -> Placeholder.ctr s' <= Placeholder.PUA_END ->
  fl false s' false x = flat0 s (norm_if c left).
Proof.
  intros c o s left right s' x any H1 H2 H3 H4 H5 H6 H7 H8.
  exact (proj2 (proj2 (text_update_flat c o s left right s' x any H1 H2 H3 H4 H5 H6 H7 H8))).
Qed.
Print Assumptions C10_texttag_update_flat_partial.

(* non-vacuity: a maker with one element placeholder, a<i k="v"/>b -> ab: the premises hold, the update writes
   a, the placeholder of the copy marked diff:delete, b *)
Example C10_texttag_example :
  (pinv ex_s /\ capart ex_s /\ DMP.wf_cls (cls_of ex_s) /\
   Forall (txt_ok ex_s) [97; ex_c; 98] /\ Forall (txt_ok ex_s) [97; 98]) /\
  exists s' x any,
    make_diff_tags ex_cfg ex_o ex_s [97; ex_c; 98] [97; 98] false = FOk (s', x, any) /\
    fl true s' false x = flat0 ex_s [97; 98] /\ fl false s' false x = flat0 ex_s [97; ex_c; 98] /\
    flat0 ex_s [97; ex_c; 98] = [AC 97; atom_of ex_el; AC 98] /\ x = [97; 57352; 98].
Proof. exact (conj ex_premises ex_flat). Qed.
Print Assumptions C10_texttag_example.

(* Non-vacuity: <a><b>xy</b>t<c/></a> with the script of Properties/C09.v (move, text update, rename, attribute,
   insert + delete), given as the namedtuples the differ yields. *)
Definition exW : xtree :=
  XNode [97] [] None [] [XNode [98] [] (Some [120;121]) [116] []; XNode [99] [] None [] []].
Definition s_ (l : list N) : str := l.
Definition exGs : list gaction :=
  [GA (s_ [77;111;118;101;78;111;100;101]) [PStr [47;97;47;99;91;49;93]; PStr [47;97;47;98;91;49;93]; PInt 0];
   GA (s_ [85;112;100;97;116;101;84;101;120;116;73;110]) [PStr [47;97;47;98;91;49;93]; PStr [120;122]];
   GA (s_ [82;101;110;97;109;101;78;111;100;101]) [PStr [47;97;47;98;47;99;91;49;93]; PStr [100]];
   GA (s_ [73;110;115;101;114;116;65;116;116;114;105;98]) [PStr [47;97;91;49;93]; PStr [107]; PStr [49]];
   GA (s_ [73;110;115;101;114;116;78;111;100;101]) [PStr [47;97;91;49;93]; PStr [101]; PInt 0];
   GA (s_ [68;101;108;101;116;101;78;111;100;101]) [PStr [47;97;47;101;91;49;93]]].
Definition exO : oracle :=
  Orc {| DMP.isalnum := fun c => (97 <=? c) && (c <=? 122); DMP.isspace := fun c => c =? 32 |} (fun _ => false).
Definition exC : cfg := Cfg 0 false [] [].

Example C10_example :
  exists T, xml_format exC exO [] Placeholder.ph_init exGs exW = FOk T /\
            xequiv (ws_text exC) (erase_attrs (reject T)) (erase_attrs exW) /\
            xequiv_r (ws_text exC) (reject T) exW.
Proof.
  destruct (xml_format exC exO [] Placeholder.ph_init exGs exW) as [T|e] eqn:E; [|vm_compute in E; discriminate].
  exists T. split; [reflexivity|]. split.
  - apply (C10_reject_partial exC exO [] exGs exW T eq_refl).
    + reflexivity.
    + repeat (constructor; try reflexivity).
    + repeat (constructor; try reflexivity).
    + apply run_okb_sound. vm_compute. reflexivity.
    + exact E.
  - apply (C10_reject_attrs_partial exC exO [] exGs exW T eq_refl).
    + reflexivity.
    + repeat (constructor; try reflexivity).
    + repeat (constructor; try reflexivity).
    + repeat (constructor; try (split; constructor)).
    + apply run_okb_sound. vm_compute. reflexivity.
    + apply run_ok_attrb_sound. vm_compute. reflexivity.
    + exact E.
Qed.
Print Assumptions C10_example.

(* Non-vacuity with use_replace: "xy" -> "xz" is written x<diff:replace old-text="y">z</diff:replace> *)
Definition exC2 : cfg := Cfg 0 true [] [].
Example C10_example_replace :
  exists T, xml_format exC2 exO [] Placeholder.ph_init exGs exW = FOk T /\
            xequiv_r (ws_text exC2) (reject T) exW /\
            existsb (fun k => match wrapper_kind k with Some WRep => true | _ => false end)
                    (flat_map Placeholder.xkids (Placeholder.xkids T)) = true.
Proof.
  destruct (xml_format exC2 exO [] Placeholder.ph_init exGs exW) as [T|e] eqn:E; [|vm_compute in E; discriminate].
  exists T. split; [reflexivity|]. split.
  - apply (C10_reject_attrs_partial exC2 exO [] exGs exW T eq_refl).
    + reflexivity.
    + repeat (constructor; try reflexivity).
    + repeat (constructor; try reflexivity).
    + repeat (constructor; try (split; constructor)).
    + apply run_okb_sound. vm_compute. reflexivity.
    + apply run_ok_attrb_sound. vm_compute. reflexivity.
    + exact E.
  - revert E. vm_compute. intros E. inversion E. reflexivity.
Qed.
Print Assumptions C10_example_replace.
