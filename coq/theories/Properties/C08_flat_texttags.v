(* C08 / C09 / C10 with TEXT TAGS CONFIGURED, for documents in which no text-tag element has element children
   (paragraphs of plain text: <p>some text</p> with text_tags = ["p"], any formatting_tags).

   XMLFormatter looks at text_tags in prepare() only (XV.XmlFmt: c_tt occurs in prepare and nowhere in the handlers,
   _make_diff_tags or finalize).  C08_prepare_flat_texttags: on such documents the placeholder substitution of
   prepare() changes neither the trees (beyond removing the comments) nor the maker, whatever text_tags and
   formatting_tags are.  C08_C09_C10_flat_texttags: hence for the differ's own script the formatter completes, the
   result is clean, accepting every change gives the right document and rejecting every change the left one -- the
   statements of C08_total_clean_differ, C09_accept_differ and C10_reject_differ WITHOUT their premise text_tags = [],
   under the premise tt_flat instead.  (With text tags that do contain elements the statements stay partial: see
   Properties/C08.v.)  Proofs: XV.TextTagsFlat (do_tree_flat), XV.XmlFmtDiffer (differ_format_b).
   This file contains statements only. *)
From Coq Require Import List NArith ZArith Bool.
Import ListNotations.
Require Import XV.Str XV.Json XV.TextFormat XV.Forest XV.Matcher XV.Differ XV.Spec XV.Path XV.WF XV.PathProofs XV.Render
               XV.XmlFmt XV.Projections XV.XmlFmtProofs1 XV.XmlFmtProofs2 XV.XmlFmtProofs5 XV.XmlFmtProofsB XV.XmlFmtProofsC
               XV.PrefixProofs XV.XmlFmtDiffer3 XV.XmlFmtDiffer XV.TextTagsFlat.
Require XV.Placeholder XV.PlaceholderUndo XV.DMP XV.Serialize XV.SerializeProofs XV.SerializeDoc XV.XmlFmtNames3.
Local Open Scope N_scope.

Theorem C08_prepare_flat_texttags : forall (c : cfg) (L R : tree),
  tt_flat (c_tt c) (remove_comments L) = true -> tt_flat (c_tt c) (remove_comments R) = true ->
  prepare c L R = (Placeholder.ph_init, remove_comments L, remove_comments R).
Proof.
  intros c L R HL HR. unfold prepare.
  rewrite (do_tree_flat (c_tt c) (c_fmt c) Placeholder.ph_init (remove_comments L) HL).
  rewrite (do_tree_flat (c_tt c) (c_fmt c) Placeholder.ph_init (remove_comments R) HR). reflexivity.
Qed.
Print Assumptions C08_prepare_flat_texttags.

Theorem C08_C09_C10_flat_texttags :
  forall (c : cfg) (o : oracle) (pe : penv) (L R : forest) (rootL rootR : id) (lns rns : nsmap) (m : list (id * id)) (pro : list iact),
  wf_forest L rootL -> wf_forest R rootR -> valid_matching L R rootL rootR m ->
  ns_prologue lns rns = Some pro ->
  ns_decl_okb pe lns rns L rootL R rootR = true -> doc_names_okb pe L rootL = true -> doc_names_okb pe R rootR = true ->
  doc_okb L = true -> doc_okb R = true ->
  (c_replace c = true -> text_size R rootR <= 6393) ->
  let script := pro ++ out (gen_script [] R rootR L rootL m) in
  let W := remove_comments (doc_tree L rootL) in
  let WR := remove_comments (doc_tree R rootR) in
  (* any text tags, any formatting tags -- but no text-tag element with element children *)
  tt_flat (c_tt c) W = true -> tt_flat (c_tt c) WR = true ->
  prepare c (doc_tree L rootL) (doc_tree R rootR) = (Placeholder.ph_init, W, WR) /\
  exists gs T, render_script pe rootL L script = Some gs /\
    xml_format c o lns Placeholder.ph_init gs W = FOk T /\ out_clean T = true /\
    xequiv (ws_text c) (accept T) WR /\
    xequiv (ws_text c) (erase_attrs (reject T)) (erase_attrs W).
Proof.
  intros c o pe L R rootL rootR lns rns m pro H1 H2 H3 H4 H5 H6 H7 H8 H9 H10 script W WR HL HR.
  split; [exact (C08_prepare_flat_texttags c (doc_tree L rootL) (doc_tree R rootR) HL HR)|].
  exact (differ_format_b c o pe L R rootL rootR lns rns m pro H1 H2 H3 H4 H5 H6 H7 H8 H9 H10).
Qed.
Print Assumptions C08_C09_C10_flat_texttags.

(* ... and the printed string (pretty_print = False, documents without namespaces of their own: doc_xnb) parses back
   to the result tree: C08_prints_wellformed_differ without its premise text_tags = [] *)
Theorem C08_prints_wellformed_flat_texttags :
  forall (c : cfg) (o : oracle) (pe : penv) (L R : forest) (rootL rootR : id)
         (lns rns : nsmap) (m : list (id * id)) (pro : list iact),
  wf_forest L rootL -> wf_forest R rootR -> valid_matching L R rootL rootR m ->
  ns_prologue lns rns = Some pro ->
  ns_decl_okb pe lns rns L rootL R rootR = true ->
  doc_names_okb pe L rootL = true -> doc_names_okb pe R rootR = true ->
  doc_okb L = true -> doc_okb R = true ->
  XmlFmtNames3.doc_xnb L = true -> XmlFmtNames3.doc_xnb R = true ->
  (c_replace c = true -> text_size R rootR <= 6393) ->
  let script := pro ++ out (gen_script [] R rootR L rootL m) in
  let W := remove_comments (doc_tree L rootL) in
  let WR := remove_comments (doc_tree R rootR) in
  tt_flat (c_tt c) W = true -> tt_flat (c_tt c) WR = true ->
  prepare c (doc_tree L rootL) (doc_tree R rootR) = (Placeholder.ph_init, W, WR) /\
  exists gs T, render_script pe rootL L script = Some gs /\
    xml_format c o lns Placeholder.ph_init gs W = FOk T /\ out_clean T = true /\ SerializeDoc.dnode_ok T = true /\
    forall P, SerializeProofs.P_ok P ->
      Serialize.parse P (Serialize.pneed T) (SerializeDoc.render P T) = Some (SerializeProofs.nk T).
Proof.
  intros c o pe L R rootL rootR lns rns m pro H1 H2 H3 H4 H5 H6 H7 H8 H9 X1 X2 H10 script W WR HL HR.
  split; [exact (C08_prepare_flat_texttags c (doc_tree L rootL) (doc_tree R rootR) HL HR)|].
  exact (XmlFmtNames3.differ_prints_b c o pe L R rootL rootR lns rns m pro H1 H2 H3 H4 H5 H6 H7 H8 H9 X1 X2 H10).
Qed.
Print Assumptions C08_prints_wellformed_flat_texttags.

(* non-vacuity: <a><b>xy</b>t<c/></a> -> <a k="1"><b>xz</b>t<d/></a> with text_tags = ["b"; "c"; "d"],
   formatting_tags = ["i"]: b, c, d have no element children, every premise holds by computation *)
Example C08_flat_texttags_example :
  let c := Cfg 0 false [[98]; [99]; [100]] [[105]] in
  tt_flat (c_tt c) (remove_comments (doc_tree dx_L 0%nat)) = true /\
  tt_flat (c_tt c) (remove_comments (doc_tree dx_R 0%nat)) = true /\
  c_tt c <> [] /\
  (wf_forest dx_L 0%nat /\ wf_forest dx_R 0%nat /\ valid_matching dx_L dx_R 0%nat 0%nat dx_m /\ ns_prologue [] [] = Some [] /\
   ns_decl_okb dx_pe [] [] dx_L 0%nat dx_R 0%nat = true /\ doc_names_okb dx_pe dx_L 0%nat = true /\ doc_names_okb dx_pe dx_R 0%nat = true /\
   doc_okb dx_L = true /\ doc_okb dx_R = true /\ text_size dx_R 0%nat <= 6393).
Proof.
  cbv zeta. split; [vm_compute; reflexivity|]. split; [vm_compute; reflexivity|]. split; [discriminate|]. exact dx_premises.
Qed.
Print Assumptions C08_flat_texttags_example.
