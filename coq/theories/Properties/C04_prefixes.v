(* C04_prefixes -- supplementary to C04: the SECOND sentence of the property,
   "Every namespace prefix used in a path is bound either on the root of the
   left document or by an earlier InsertNamespace action of the same script, so
   a consumer needs no other context to resolve it", as a theorem about the
   scripts the differ emits -- which discharges the hypothesis script_ok of
   C04_patch_replays_script / C01_roundtrip.

   Models: XV.Differ (gen_script, ns_prologue), XV.Pipeline (diff_model), XV.Path,
   XV.Render, XV.PatcherDSL + XV.Gen.PatcherProg, XV.Spec.   Proofs: XV.PrefixProofs.

   Premises on the inputs (all checkable by computation: ns_decl_okb_sound,
   doc_names_okb_iff, wf_forestb_sound):
   - ns_decl_ok pe lns rns L rootL R rootR  -- namespaces are declared on the
     two roots and pe is the policy "the left root's binding, else the one the
     right root contributes":
       * the right root's map rns has distinct keys;
       * if rns declares a default namespace then so does lns (otherwise the
         script contains InsertNamespace(None, ..), on which the shipped patcher
         fails);
       * every URI u in a tag of a document node of L: pe u = None (default
         namespace, printed "*") or pe u = Some p with lns binding p to u;
       * every URI u in a tag of a document node of R: pe u = None, or
         pe u = Some p with lns binding p to u, or p unbound in lns and rns
         binding p to u.
     Documents outside this domain are recorded findings on the real code
     (default namespace differing between the roots, namespaces declared below
     the root, generated prefixes ns<digits>).
   - doc_names_ok pe f root (= names_ok): printed names are non-empty and free
     of / [ ] : * ( ). *)
From Coq Require Import List NArith ZArith Bool Arith.
Import ListNotations.
Require Import XV.Str XV.Json XV.TextFormat XV.Forest XV.Matcher XV.Differ XV.Spec XV.WF
               XV.Path XV.PatcherDSL XV.Render XV.Gen.TextTables XV.Gen.PatcherProg
               XV.PathProofs XV.PatcherProofs XV.Pipeline XV.PrefixProofs.

(* The side condition of the patcher theorems holds for every script of the
   differ, whatever the matching (it need not even be valid). *)
Theorem C04_differ_script_ok :
  forall (pe : penv) (ignored : list str) (L R : forest) (rootL rootR : id) (lns rns : nsmap)
         (m : list (id * id)) (pro : list iact),
  wf_forest L rootL -> wf_forest R rootR ->
  ns_prologue lns rns = Some pro ->
  ns_decl_ok pe lns rns L rootL R rootR ->
  doc_names_ok pe L rootL -> doc_names_ok pe R rootR ->
  script_ok pe rootL (nsmap_env lns) L (pro ++ out (gen_script ignored R rootR L rootL m)).
Proof. exact differ_script_ok. Qed.
Print Assumptions C04_differ_script_ok.

(* The property, spelled out: for the action a at index i of the emitted script,
   in the tree T reached by the first i actions, and for each node n the action
   names: the path utils.getpath prints for n selects exactly n (counting ALL
   matches) under the namespace map "left root + InsertNamespace actions among
   the first i", its last step is indexed, the string parses back, and every
   prefix q occurring in it is bound on the left root or by one of the first i
   actions. *)
Theorem C04_prefixes_bound :
  forall (pe : penv) (ignored : list str) (L R : forest) (rootL rootR : id) (lns rns : nsmap)
         (m : list (id * id)) (pro : list iact),
  wf_forest L rootL -> wf_forest R rootR -> valid_matching L R rootL rootR m ->
  ns_prologue lns rns = Some pro ->
  ns_decl_ok pe lns rns L rootL R rootR ->
  doc_names_ok pe L rootL -> doc_names_ok pe R rootR ->
  let script := pro ++ out (gen_script ignored R rootR L rootL m) in
  forall (i : nat) (a : iact), nth_error script i = Some a ->
  exists T,
    run_spec rootL L (firstn i script) = Some T /\
    forall n, In n (act_nodes a) ->
      let p := getpath pe T rootL n in
      let env := pro_env (nsmap_env lns) (firstn i script) in
      In n (doc_nodes T rootL) /\
      eval_all env T rootL p = Some [n] /\
      last_indexed p = true /\
      path_of_str (path_to_str p) = Some p /\
      forall q, In q (path_prefixes p) ->
        exists u, ns_get lns (Some q) = Some u \/ In (IInsNs (Some q) u) (firstn i script).
Proof. exact prefixes_bound. Qed.
Print Assumptions C04_prefixes_bound.

(* C01_roundtrip without the script_ok hypothesis: diff, render, patch with the
   left root's namespace map -- no error, and the right document. *)
Theorem C04_roundtrip_unconditional :
  forall (sim : Type) (sim_ltb sim_leb : sim -> sim -> bool) (sim_is_one : sim -> bool)
         (zero one : sim) (leaf_sim : str -> str -> sim) (combine : sim -> nat -> nat -> sim)
         (o : mopts sim) (L R : forest) (rootL rootR : id) (lns rns : nsmap) (pe : penv),
  sim_leb (oF sim o) zero = false -> sim_is_one zero = false ->
  wf_forest L rootL -> wf_forest R rootR ->
  ns_prologue lns rns <> None ->
  ns_decl_ok pe lns rns L rootL R rootR ->
  doc_names_ok pe L rootL -> doc_names_ok pe R rootR ->
  exists script W gs T',
    diff_model sim sim_ltb sim_leb sim_is_one zero one leaf_sim combine o L R rootL rootR lns rns
      = Some (script, W)
    /\ script_ok pe rootL (nsmap_env lns) L script
    /\ render_script pe rootL L script = Some gs
    /\ patch actions_sig true rootL patcher_progs L lns gs = POk T'
    /\ forest_ext_eq T' W
    /\ tree_equivb (tree_map_attrs (node_attribs_d (oignored sim o)) (to_tree (S (fnext T')) T' rootL))
                   (tree_map_attrs (node_attribs_d (oignored sim o)) (to_tree (S (fnext R)) R rootR)) = true.
Proof. exact roundtrip_unconditional. Qed.
Print Assumptions C04_roundtrip_unconditional.

(* Non-vacuity.  L = <r xmlns:p="up"><p:a/></r>,
   R = <r xmlns:p="up" xmlns:q="uq"><q:b/><p:a/><q:b>x</q:b></r>: the prefix q is
   declared by the right root only.  The premises hold; the script starts with
   InsertNamespace(q, uq); the last action addresses /r/q:b[2], whose prefix is
   bound by that action only; patching gives R. *)
Example C04_prefixes_example :
  let up := [117;112]%N in let uq := [117;113]%N in
  let L := mk_forest [(0, [1])]
            [(0, Lab (TElem [114%N]) [] None None);
             (1, Lab (TElem (clark up [97%N])) [] None None)] 2 in
  let R := mk_forest [(0, [1; 2; 3])]
            [(0, Lab (TElem [114%N]) [] None None);
             (1, Lab (TElem (clark uq [98%N])) [] None None);
             (2, Lab (TElem (clark up [97%N])) [] None None);
             (3, Lab (TElem (clark uq [98%N])) [] (Some [120%N]) None)] 4 in
  let pe : penv := fun u => if str_eqb u up then Some [112%N]
                            else if str_eqb u uq then Some [113%N] else None in
  let lns : nsmap := [(Some [112%N], up)] in
  let rns : nsmap := [(Some [112%N], up); (Some [113%N], uq)] in
  let leaf := fun a b : str => if str_eqb a b then 100 else
              match a, b with x :: _, y :: _ => if N.eqb x y then 60 else 10 | _, _ => 10 end in
  let comb := fun m c n : nat => if Nat.ltb 0 n && Nat.eqb c n then m else m * 70 / 100 in
  let is_one := fun x => Nat.eqb x 100 in
  let o := MOpts nat 50 [] false false [] in
  let script := [IInsNs (Some [113%N]) uq; IInsert 0 (clark uq [98%N]) 0 2;
                 IInsert 0 (clark uq [98%N]) 2 3; IText 3 (Some [120%N])] in
  (* premises *)
  wf_forest L 0 /\ wf_forest R 0 /\ ns_prologue lns rns <> None /\
  ns_decl_ok pe lns rns L 0 R 0 /\ doc_names_ok pe L 0 /\ doc_names_ok pe R 0 /\
  (* the emitted script and the paths it carries *)
  option_map fst (diff_model nat Nat.ltb Nat.leb is_one 0 100 leaf comb o L R 0 0 lns rns) = Some script /\
  match render_script pe 0 L script with
  | Some gs =>
      map (fun g => match ga_fields g with PStr s :: _ => s | _ => [] end) gs
      = [ [113]; [47; 114; 91; 49; 93]; [47; 114; 91; 49; 93];
          [47; 114; 47; 113; 58; 98; 91; 50; 93] (* /r/q:b[2] *) ]%N
      /\ match patch actions_sig true 0 patcher_progs L lns gs with
         | POk T' => tree_equivb (doc_tree T' 0) (doc_tree R 0) = true
         | PErr _ => False
         end
  | None => False
  end.
Proof.
  cbv zeta.
  split; [apply wf_forestb_sound; vm_compute; reflexivity|].
  split; [apply wf_forestb_sound; vm_compute; reflexivity|].
  split; [vm_compute; discriminate|].
  split; [apply ns_decl_okb_sound; vm_compute; reflexivity|].
  split; [apply doc_names_okb_iff; vm_compute; reflexivity|].
  split; [apply doc_names_okb_iff; vm_compute; reflexivity|].
  split; [vm_compute; reflexivity|].
  vm_compute. split; reflexivity.
Qed.
Print Assumptions C04_prefixes_example.
