(* C02 -- placeholder until the proofs land *)
Require Import XV.TextFormat.
