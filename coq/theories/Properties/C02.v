(* C02 -- the textual edit-script format round-trips.

   Model: XV.TextFormat.format / parse are generic interpreters of
   formatting.DiffFormatter and patch.DiffParser (including _split) over the
   tables XV.Gen.TextTables.tables, which the translator regenerates from
   /repo/xmldiff/{actions,formatting,patch}.py on every run; the interpreters,
   XV.Str and XV.Json are validated against the implementation by differential
   testing.

   C02_tables_ok    the generated tables pass the checker tables_ok (separators,
                    keywords, formatter/parser handler agreement field by field
                    and encoder by encoder); re-evaluated on every run.
   C02_parse_format for every list of well-formed actions, parsing the formatted
                    text gives back exactly that list, one action per line.
                    Well-formed (wf_action): verbatim fields (xpaths, names,
                    prefixes, URIs) contain no line-break character, no
                    leading/trailing white space, and every comma stands inside a
                    double-quoted literal that is closed again or inside the braces
                    of a Clark name {uri}local that begins the field (rawq_ok: in
                    particular no comma and no double quote at all; but also a
                    hand-written path such as /doc/para[@id="intro, part 1"] and a
                    name such as {tag:example.org,2005:x}item, at which
                    DiffParser._split does not split); JSON-encoded
                    fields (text, attribute values, comments) are None or ANY
                    string of non-surrogate code points <= U+10FFFF; integer
                    fields are any integer.
   C02_format_total formatting well-formed actions never fails.
   Proofs: XV.TextFormatProofs (with XV.StrProofs, XV.JsonProofs). *)
From Coq Require Import List NArith ZArith.
Require Import XV.Str XV.Json XV.TextFormat XV.Gen.TextTables XV.TextFormatProofs.
Import ListNotations.
Local Open Scope N_scope.

Theorem C02_tables_ok : tables_ok XV.Gen.TextTables.tables = true.
Proof. vm_compute. reflexivity. Qed.
Print Assumptions C02_tables_ok.

Theorem C02_parse_format : forall acts text,
  Forall (wf_action tables) acts -> format tables acts = Ok text ->
  parse tables text = Ok acts /\ length (splitlines text) = length acts.
Proof. intros acts text. exact (parse_format_generic tables acts text C02_tables_ok). Qed.
Print Assumptions C02_parse_format.

Theorem C02_format_total : forall acts,
  Forall (wf_action tables) acts -> exists text, format tables acts = Ok text.
Proof. intros acts. exact (format_total_generic tables acts C02_tables_ok). Qed.
Print Assumptions C02_format_total.

(* The premise is satisfiable: one action of each kind; the text value contains
   a comma, double quotes, a backslash, a newline, U+1F600 (non-BMP), U+2028,
   a tab and brackets. *)
Example C02_wf_example :
  Forall (wf_action tables)
    [GA [68;101;108;101;116;101;78;111;100;101] [PStr [47;114;111;111;116;47;97;91;49;93]];
     GA [73;110;115;101;114;116;78;111;100;101] [PStr [47;114;111;111;116]; PStr [123;104;116;116;112;58;47;47;101;120;97;109;112;108;101;46;111;114;103;47;110;115;125;116;97;103]; PInt 3%Z];
     GA [82;101;110;97;109;101;78;111;100;101] [PStr [47;114;111;111;116;47;97;91;50;93]; PStr [98]];
     GA [77;111;118;101;78;111;100;101] [PStr [47;114;111;111;116;47;97;91;50;93]; PStr [47;114;111;111;116;47;99;91;49;93]; PInt 0%Z];
     GA [85;112;100;97;116;101;84;101;120;116;73;110] [PStr [47;114;111;111;116;47;98;91;49;93]; PStr [97;44;32;34;98;34;32;92;32;99;10;100;32;128512;32;233;8232;9;91;120;93;44;32;93]];
     GA [85;112;100;97;116;101;84;101;120;116;65;102;116;101;114] [PStr [47;114;111;111;116;47;98;91;49;93]; PNone];
     GA [85;112;100;97;116;101;65;116;116;114;105;98] [PStr [47;114;111;111;116]; PStr [97;116;116;114]; PStr [97;44;32;34;98;34;32;92;32;99;10;100;32;128512;32;233;8232;9;91;120;93;44;32;93]];
     GA [68;101;108;101;116;101;65;116;116;114;105;98] [PStr [47;114;111;111;116]; PStr [111;108;100;32;97;116;116;114]];
     GA [73;110;115;101;114;116;65;116;116;114;105;98] [PStr [47;114;111;111;116]; PStr [123;104;116;116;112;58;47;47;119;119;119;46;119;51;46;111;114;103;47;88;77;76;47;49;57;57;56;47;110;97;109;101;115;112;97;99;101;125;108;97;110;103]; PStr []];
     GA [82;101;110;97;109;101;65;116;116;114;105;98] [PStr [47;114;111;111;116]; PStr [120]; PStr [121]];
     GA [73;110;115;101;114;116;67;111;109;109;101;110;116] [PStr [47;114;111;111;116]; PInt (-1)%Z; PStr [97;44;32;34;98;34;32;92;32;99;10;100;32;128512;32;233;8232;9;91;120;93;44;32;93]];
     GA [73;110;115;101;114;116;78;97;109;101;115;112;97;99;101] [PStr []; PStr [104;116;116;112;58;47;47;101;120;97;109;112;108;101;46;111;114;103;47;110;115]];
     GA [68;101;108;101;116;101;78;97;109;101;115;112;97;99;101] [PStr [110;115;48]]].
Proof. apply wf_actionsb_spec. vm_compute. reflexivity. Qed.
Print Assumptions C02_wf_example.

(* ... and a hand-written script whose path holds a double-quoted literal with a comma:
   DeleteNode /doc/para[@id="intro, part 1"]   and   UpdateTextIn /a/b[@k="x,y"][2] "t, u"
   -- well formed, and the round trip computed *)
Definition quoted_script : list gaction :=
  [GA [68;101;108;101;116;101;78;111;100;101]
      [PStr [47;100;111;99;47;112;97;114;97;91;64;105;100;61;34;105;110;116;114;111;44;32;112;97;114;116;32;49;34;93]];
   GA [85;112;100;97;116;101;84;101;120;116;73;110]
      [PStr [47;97;47;98;91;64;107;61;34;120;44;121;34;93;91;50;93]; PStr [116;44;32;117]]].
Example C02_quoted_path_example :
  Forall (wf_action tables) quoted_script /\
  forallb (wf_actionb tables) quoted_script = false /\          (* outside the plain test, inside the property *)
  match format tables quoted_script with
  | Ok text => match parse tables text with Ok acts => length acts = 2%nat /\ length (splitlines text) = 2%nat | Err _ => False end
  | Err _ => False
  end.
Proof.
  split; [|split].
  - apply Forall_forall. intros a Ha. apply wf_actionqb_spec.
    assert (H : forallb (wf_actionqb tables) quoted_script = true) by (vm_compute; reflexivity).
    rewrite forallb_forall in H. apply H, Ha.
  - vm_compute. reflexivity.
  - vm_compute. split; reflexivity.
Qed.
Print Assumptions C02_quoted_path_example.

(* Namespace names are written verbatim inside a Clark name {uri}local and may hold commas (every name of the tag:
   URI scheme does) and even double quotes; since the repair "fix: DiffParser splits a namespace URI at its commas"
   DiffParser._split does not split inside the braces of a Clark name that begins a field.  C02_clark_names: every
   such name -- the namespace part ANY string without a closing brace and a line break, the local part printable
   without comma and quote -- is a well-formed verbatim field, so C02_parse_format covers scripts that carry it. *)
Theorem C02_clark_names : forall u l,
  ~ In 125 u -> Forall (fun c => is_linebreak c = false) u ->
  Forall (fun c => 33 <= c <= 126 /\ c <> 44 /\ c <> 34) l -> l <> [] ->
  wf_val ERaw (PStr (123 :: u ++ 125 :: l)).
Proof. exact clark_rawq. Qed.
Print Assumptions C02_clark_names.

(* RenameNode /a/p:b[1] {tag:example.org,2005:x}c;  InsertNode /a[1] {urn:"quoted", odd}b 1;
   InsertAttrib /a/p:b[1] {tag:example.org,2005:x}k "1, 2";  RenameAttrib /a/b[1] {tag:...}k {tag:...}j *)
Definition clark_script : list gaction :=
  [GA [82;101;110;97;109;101;78;111;100;101] [PStr [47;97;47;112;58;98;91;49;93]; PStr [123;116;97;103;58;101;120;97;109;112;108;101;46;111;114;103;44;50;48;48;53;58;120;125;99]];
   GA [73;110;115;101;114;116;78;111;100;101] [PStr [47;97;91;49;93]; PStr [123;117;114;110;58;34;113;117;111;116;101;100;34;44;32;111;100;100;125;98]; PInt 1%Z];
   GA [73;110;115;101;114;116;65;116;116;114;105;98] [PStr [47;97;47;112;58;98;91;49;93]; PStr [123;116;97;103;58;101;120;97;109;112;108;101;46;111;114;103;44;50;48;48;53;58;120;125;107]; PStr [49;44;32;50]];
   GA [82;101;110;97;109;101;65;116;116;114;105;98] [PStr [47;97;47;98;91;49;93]; PStr [123;116;97;103;58;101;120;97;109;112;108;101;46;111;114;103;44;50;48;48;53;58;120;125;107]; PStr [123;116;97;103;58;101;120;97;109;112;108;101;46;111;114;103;44;50;48;48;53;58;120;125;106]]].
Example C02_clark_example :
  Forall (wf_action tables) clark_script /\
  forallb (wf_actionb tables) clark_script = false /\
  match format tables clark_script with
  | Ok text => parse tables text = Ok clark_script /\ length (splitlines text) = 4%nat
  | Err _ => False
  end.
Proof.
  split; [|split].
  - apply Forall_forall. intros a Ha. apply wf_actionqb_spec.
    assert (H : forallb (wf_actionqb tables) clark_script = true) by (vm_compute; reflexivity).
    rewrite forallb_forall in H. apply H, Ha.
  - vm_compute. reflexivity.
  - vm_compute. split; reflexivity.
Qed.
Print Assumptions C02_clark_example.
