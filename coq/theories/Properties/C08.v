(* C08 -- the XML formatter always returns well-formed, placeholder-free markup.

   Model: XV.XmlFmt, tied to xmldiff/formatting.py by harness/xmlfmt_corr.py on every run.
   Only statements here; proofs in XV.XmlFmtProofs0-9, R2, A, B, C.

   What is claimed of the model, and what is left to lxml:
     "completes"          xml_format .. = FOk T : no ValueError from _xpath, no KeyError from the attribute
                          handlers, no failed assert in _realign_placeholders, no IndexError in undo_string;
     "placeholder-free"   out_clean T: no character of (U+E000, U+F8FF] in any tag, attribute NAME, attribute VALUE
                          (old-text included), text or tail;
     "diff namespace only as documented"  out_clean T as well: an element in the diff namespace is diff:insert /
                          diff:delete / diff:replace, an attribute in it is diff:insert, diff:delete, diff:replace,
                          diff:rename, diff:{add,delete,rename,update}-attr or diff:{insert,delete,replace}-formatting;
     "parses as XML"      serialisation and re-parsing are lxml's: TESTED by re-parsing the printed string on every
                          run (oracle_C08), not proved.

   Vocabulary: see Properties/C09.v (L, W, run_spec, render_script, fscript_ok, names_plain, run_ok, npua, clean_tags,
   nodiff); in addition
     wclean W             no private-use character in the tags, attribute names and values of the document, no element
                          or attribute of it in the diff namespace other than documented ones;
     iact_plain           the strings the script brings (tags, attribute names and values) have no private-use
                          character, tags are not in the diff namespace, and there is no InsertComment (the formatter
                          has no handler for it; prepare() removed the comments);
   The text-diff model is total: DMPBisect5.bisect_safe_holds discharges the obligation DMPTotalMain.bisect_safe
   (diff_bisect's middle-snake search returns), so no premise about it is left.

   PARTIAL: proved for configurations without text tags, with or without use_replace, under run_ok (with use_replace
   run_ok also asks that the maker has a free private-use code point per character of every new text: room_ok, see
   Properties/C09.v).
   With use_replace AND text_tags the full statement is FALSE (C08_total_clean_refuted, open finding
   "use_replace-with-text_tags").  With text_tags and formatting_tags WITHOUT use_replace it is FALSE as well
   (C08_texttags_refuted, open finding "identical-formatting-elements-cross").  With text tags, proved only: one text
   update (_make_diff_tags, hence _realign_placeholders and its assert) returns under the premise `apart` that excludes
   that finding (C08_texttag_update_total_partial); NOT proved with text tags: that finalize returns (witness (B) of the
   finding fails there) and that the output is clean -- correspondence + oracle only. *)
From Coq Require Import List NArith ZArith Bool.
Import ListNotations.
Require Import XV.Str XV.Json XV.TextFormat XV.Forest XV.Matcher XV.Differ XV.Spec XV.Path XV.WF XV.PathProofs XV.Render
               XV.XmlFmt XV.Projections XV.XmlFmtProofs1 XV.XmlFmtProofs2 XV.XmlFmtProofsR2 XV.XmlFmtProofs3 XV.XmlFmtProofs4 XV.XmlFmtProofs5
               XV.XmlFmtProofs9 XV.XmlFmtProofsB XV.XmlFmtProofsC XV.XmlFmtProofsT1 XV.XmlFmtProofsT3
               XV.Differ XV.PrefixProofs XV.XmlFmtDiffer3 XV.XmlFmtDiffer.
Require XV.Placeholder XV.PlaceholderUndo XV.DMP XV.DMPTotalMain XV.DMPBisect5.
Local Open Scope N_scope.

Theorem C08_total_clean_partial :
  forall (c : cfg) (o : oracle) (rootns : list (option str * str)) (pe : penv) (root : id)
         (L : forest) (script : list iact) (gs : list gaction) (fT : forest),
  c_tt c = [] ->
  wf_forest L root -> (forall m, desc L root m -> is_comment (ltag (flab L m)) = false) ->
  let W := remove_comments (doc_tree L root) in
  PlaceholderUndo.npua W = true -> clean_tags W -> nodiff W -> wclean W ->
  run_spec root L script = Some fT -> render_script pe root L script = Some gs ->
  fscript_ok rootns pe root [(Some DIFF_PREFIX, DIFF_NS)] L script ->
  Forall names_plain script -> Forall iact_plain script ->
  run_ok c o rootns (FS W Placeholder.ph_init [(Some DIFF_PREFIX, DIFF_NS)]) gs ->
  exists T, xml_format c o rootns Placeholder.ph_init gs W = FOk T /\ out_clean T = true.
Proof.
  intros c o rootns pe root L script gs fT _. exact (format_total_clean c o rootns pe root L script gs fT).
Qed.
Print Assumptions C08_total_clean_partial.

(* FOR THE DIFFER'S OWN SCRIPTS the run-level premises (fscript_ok, names_plain, run_ok, iact_plain) are THEOREMS
   (XV.XmlFmtDiffer): the statement below has premises about the two documents, the matching and the configuration only.
     L, R                 the two PREPARED documents as forests (comments removed); m any valid matching of them;
     lns, rns             the namespace declarations of the two root elements; pro the namespace prologue Differ.diff
                          emits for them (InsertNamespace / DeleteNamespace actions);
     script               pro ++ out (gen_script [] R rootR L rootL m): the model of Differ.diff (XV.Differ) for that matching;
     ns_decl_okb, doc_names_okb   the namespace / printable-name conditions of PrefixProofs (C13): every namespace used is
                          declared on a root, no prefix is bound to two URIs, names are printable XPath names;
     doc_okb f            every node slot of f is an element; tags, attribute names and values, texts and tails contain no
                          private-use character; tags and attribute names are not in the diff namespace (XmlFmtDiffer3);
     text_size R rootR    the number of characters of all texts and tails of R; only with use_replace: at most 6393 (one
                          private-use code point per replaced segment is then always available).
   Proof idea for run_ok: the breadth-first phase visits every right node once; the text / tail update and the rename
   of a visit aim at the node's partner; partners of different nodes differ (XmlFmtDiffer2.gen_script_parts), so no node
   is updated twice, and a node that has not been updated yet still carries its plain original text (XmlFmtDiffer1.J). *)
Theorem C08_total_clean_differ :
  forall (c : cfg) (o : oracle) (pe : penv) (L R : forest) (rootL rootR : id) (lns rns : nsmap) (m : list (id * id)) (pro : list iact),
  c_tt c = [] ->
  wf_forest L rootL -> wf_forest R rootR -> valid_matching L R rootL rootR m ->
  ns_prologue lns rns = Some pro ->
  ns_decl_okb pe lns rns L rootL R rootR = true -> doc_names_okb pe L rootL = true -> doc_names_okb pe R rootR = true ->
  doc_okb L = true -> doc_okb R = true ->
  (c_replace c = true -> text_size R rootR <= 6393) ->
  let script := pro ++ out (gen_script [] R rootR L rootL m) in
  let W := remove_comments (doc_tree L rootL) in
  exists gs T, render_script pe rootL L script = Some gs /\ xml_format c o lns Placeholder.ph_init gs W = FOk T /\
               out_clean T = true.
Proof. intros c o pe L R rootL rootR lns rns m pro _. exact (differ_total_clean c o pe L R rootL rootR lns rns m pro). Qed.
Print Assumptions C08_total_clean_differ.

(* non-vacuity: <a><b>xy</b>t<c/></a> -> <a k="1"><b>xz</b>t<d/></a>, matching a-a, b-b, c-d: every premise by computation *)
Example C08_total_clean_differ_example :
  (wf_forest dx_L 0%nat /\ wf_forest dx_R 0%nat /\ valid_matching dx_L dx_R 0%nat 0%nat dx_m /\ ns_prologue [] [] = Some [] /\
   ns_decl_okb dx_pe [] [] dx_L 0%nat dx_R 0%nat = true /\ doc_names_okb dx_pe dx_L 0%nat = true /\ doc_names_okb dx_pe dx_R 0%nat = true /\
   doc_okb dx_L = true /\ doc_okb dx_R = true /\ text_size dx_R 0%nat <= 6393).
Proof. exact dx_premises. Qed.
Print Assumptions C08_total_clean_differ_example.

(* whatever the script: once the handlers have returned, finalize returns as well (every open placeholder of a
   marked-up text is closed: no IndexError in undo_string) and the result is clean.  S: the maker at that point (any
   maker without text-tag placeholders the strings of W are runs over) *)
Theorem C08_finalize_clean : forall S W, tinv S -> winv S W -> wclean W ->
  exists T, finalize S W = FOk T /\ out_clean T = true.
Proof. intros S W H. exact (finalize_clean S H W). Qed.
Print Assumptions C08_finalize_clean.

(* the handlers keep the invariants finalize needs, one action at a time; the maker only grows (by diff:replace
   openers), and not at all without use_replace *)
Theorem C08_step_invariants :
  forall (S : Placeholder.state) (c : cfg) (o : oracle) (rootns : list (option str * str)) (st : fstate) (d : dact) (st' : fstate),
  tinv S -> winv S (fs_tree st) -> wclean (fs_tree st) -> tinv (fs_ph st) -> sext (fs_ph st') S ->
  step_ok rootns st d -> room_ok c st d -> act_plain d -> handle_d c o rootns st d = FOk st' ->
  winv S (fs_tree st') /\ wclean (fs_tree st') /\ tinv (fs_ph st') /\ sext (fs_ph st) (fs_ph st').
Proof. exact step_invariants. Qed.
Print Assumptions C08_step_invariants.

(* REFUTED in general (open finding "use_replace-with-text_tags", both witnesses replayed on the implementation by
   harness/xmlfmt_corr.py KNOWN_STREAM on every run):
   (a) <p>a<b>c</b>d</p> vs <p>a<b>x</b>cd</p>, text_tags = p, formatting_tags = b, use_replace: format() raises
       IndexError (pop from empty list in undo_string);
   (b) <a><a/></a> vs <c><a k="1"/></c>, text_tags = a, c, use_replace: the output carries old-text="". *)
Definition wE (tag : str) (text tail : option str) (kids : list tree) : tree := Node (Lab (TElem tag) [] text tail) kids.
Definition w_o : oracle :=
  Orc {| DMP.isalnum := fun c => (97 <=? c) && (c <=? 122); DMP.isspace := fun c => c =? 32 |} (fun _ => false).
Definition w_upd (path : str) (t : option str) : gaction :=
  GA n_UpdateTextIn [PStr path; match t with Some x => PStr x | None => PNone end].
Definition wa_L : tree := wE [112] (Some [97]) None [wE [98] (Some [99]) (Some [100]) []].
Definition wa_R : tree := wE [112] (Some [97]) None [wE [98] (Some [120]) (Some [99;100]) []].
Definition wa_c : cfg := Cfg 0 true [[112]] [[98]].
Definition wb_L : tree := wE [97] None None [wE [97] None None []].
Definition wb_R : tree := wE [99] None None [Node (Lab (TElem [97]) [([107],[49])] None None) []].
Definition wb_c : cfg := Cfg 0 true [[97];[99]] [].

Definition wb_T : xtree := Eval vm_compute in
  (let '(s, L', R') := prepare wb_c wb_L wb_R in
   match xml_format wb_c w_o [] s [GA n_RenameNode [PStr [47;97;91;49;93]; PStr [99]]; w_upd [47;99;91;49;93] (Some [57352])] L'
   with FOk T => T | FErr _ => L' end).

Theorem C08_total_clean_refuted :
  (exists c L R gs, let '(s, L', R') := prepare c L R in
     PlaceholderUndo.npua (remove_comments L) = true /\ PlaceholderUndo.npua (remove_comments R) = true /\
     gs = [w_upd [47;112;91;49;93] (Placeholder.xtext R')] /\
     xml_format c w_o [] s gs L' = FErr FIndexError) /\
  (exists c L R gs T, let '(s, L', R') := prepare c L R in
     PlaceholderUndo.npua (remove_comments L) = true /\ PlaceholderUndo.npua (remove_comments R) = true /\
     gs = [GA n_RenameNode [PStr [47;97;91;49;93]; PStr [99]]; w_upd [47;99;91;49;93] (Placeholder.xtext R')] /\
     xml_format c w_o [] s gs L' = FOk T /\ out_clean T = false).
Proof.
  split.
  - exists wa_c, wa_L, wa_R, [w_upd [47;112;91;49;93] (Some [97; 57354; 120; 57353; 99; 100])]. vm_compute. auto.
  - exists wb_c, wb_L, wb_R,
      [GA n_RenameNode [PStr [47;97;91;49;93]; PStr [99]]; w_upd [47;99;91;49;93] (Some [57352])].
    exists wb_T. vm_compute. repeat split.
Qed.
Print Assumptions C08_total_clean_refuted.

(* REFUTED with text tags and formatting tags, WITHOUT use_replace (open finding "identical-formatting-elements-cross",
   both witnesses replayed on the implementation by harness/xmlfmt_corr.py KNOWN_STREAM on every run):
   (A) <p> <b> </b>y</p> vs <p> <b> </b><b> </b>y</p>, text_tags = p, formatting_tags = b: format() raises AssertionError
       (assert stack_op <= op in _realign_placeholders: diff_cleanupSemantic shifts the inserted copy so that its OPEN
       placeholder is inserted while its CLOSE placeholder is the EQUAL one);
   (B) <p>x <b>x y</b></p> vs <p><b>x y</b>xx y<b/>y</p>, same configuration: format() raises IndexError (pop from empty
       list in undo_string: the marked copies of the same OPEN/CLOSE pair interleave). *)
Definition wB (text tail : option str) : tree := wE [98] text tail [].
Definition wc_L : tree := wE [112] (Some [32]) None [wB (Some [32]) (Some [121])].
Definition wc_R : tree := wE [112] (Some [32]) None [wB (Some [32]) None; wB (Some [32]) (Some [121])].
Definition wd_L : tree := wE [112] (Some [120;32]) None [wB (Some [120;32;121]) None].
Definition wd_R : tree := wE [112] None None [wB (Some [120;32;121]) (Some [120;120;32;121]); wB None (Some [121])].
Definition wc_c : cfg := Cfg 0 false [[112]] [[98]].

Theorem C08_texttags_refuted :
  (exists c L R gs, let '(s, L', R') := prepare c L R in
     c_replace c = false /\
     PlaceholderUndo.npua (remove_comments L) = true /\ PlaceholderUndo.npua (remove_comments R) = true /\
     gs = [w_upd [47;112;91;49;93] (Placeholder.xtext R')] /\
     xml_format c w_o [] s gs L' = FErr FAssertionError) /\
  (exists c L R gs, let '(s, L', R') := prepare c L R in
     c_replace c = false /\
     PlaceholderUndo.npua (remove_comments L) = true /\ PlaceholderUndo.npua (remove_comments R) = true /\
     gs = [w_upd [47;112;91;49;93] (Placeholder.xtext R')] /\
     xml_format c w_o [] s gs L' = FErr FIndexError).
Proof.
  split.
  - exists wc_c, wc_L, wc_R, [w_upd [47;112;91;49;93] (Some [32; 57352; 32; 57351; 57352; 32; 57351; 121])].
    vm_compute. auto.
  - exists wc_c, wd_L, wd_R,
      [w_upd [47;112;91;49;93] (Some [57352; 120; 32; 121; 57351; 120; 120; 32; 121; 57354; 57353; 121])].
    vm_compute. auto.
Qed.
Print Assumptions C08_texttags_refuted.

(* WITH text tags (use_replace = false): one text update returns -- no AssertionError from _realign_placeholders, no
   KeyError from mark_diff -- under the premise that excludes the finding above:
     apart cls l r     if the OPEN placeholder of a formatting element occurs in the NEW text r, its CLOSE placeholder does
                       not occur in the OLD text l (no formatting element starts in the new text and ends in the old one;
                       implied by: no formatting element, by serialisation, occurs in both texts);
     wf_open / wf_cls  every OPEN entry of the maker has a close placeholder, and it is a CLOSE entry; 32 is no placeholder.
   Witness (A) of C08_texttags_refuted violates `apart`.  finalize is NOT covered. *)
Theorem C08_texttag_update_total_partial :
  forall (c : cfg) (o : oracle) (s : Placeholder.state) (left right : str) (in_tail : bool),
  c_replace c = false -> wf_open (cls_of s) -> DMP.wf_cls (cls_of s) -> cls_of s 32 = None ->
  apart (cls_of s) left right ->
  exists r, make_diff_tags c o s left right in_tail = FOk r.
Proof. exact make_diff_tags_total_tt. Qed.
Print Assumptions C08_texttag_update_total_partial.

(* non-vacuity: a maker with one formatting pair, a<b>x</b> -> ax *)
Example C08_texttag_update_example :
  (wf_open (cls_of ex3_s) /\ DMP.wf_cls (cls_of ex3_s) /\ cls_of ex3_s 32 = None /\
   apart (cls_of ex3_s) [97; 57352; 120; 57351] [97; 120]) /\
  exists r, make_diff_tags ex3_cfg ex_o ex3_s [97; 57352; 120; 57351] [97; 120] false = FOk r.
Proof. exact (conj ex3_premises ex3_total). Qed.
Print Assumptions C08_texttag_update_example.

(* Non-vacuity of the partial theorem: the example of Properties/C09.v *)
Definition exL : forest := mk_forest [(0%nat, [1%nat; 2%nat])]
  [(0%nat, Lab (TElem [97]) [] None None); (1%nat, Lab (TElem [98]) [] (Some [120;121]) (Some [116]));
   (2%nat, Lab (TElem [99]) [] None None)] 3.
Definition exS : list iact :=
  [IMove 2%nat 1%nat 0%nat; IText 1%nat (Some [120;122]); IRename 2%nat [100]; IInsAttr 0%nat [107] [49];
   IInsert 0%nat [101] 0%nat 3%nat; IDelete 3%nat].
Definition exC : cfg := Cfg 0 false [] [].

Definition ex_T (c : cfg) : xtree :=
  match xml_format c w_o [] Placeholder.ph_init
          (match render_script (fun _ => None) 0%nat exL exS with Some gs => gs | None => [] end)
          (remove_comments (doc_tree exL 0%nat)) with FOk T => T | FErr _ => XNode [] [] None [] [] end.
Definition ex_T1 : xtree := Eval vm_compute in ex_T exC.
Definition ex_T2 : xtree := Eval vm_compute in ex_T (Cfg 0 true [] []).

Example C08_example :
  exists T, xml_format exC w_o [] Placeholder.ph_init
              (match render_script (fun _ => None) 0%nat exL exS with Some gs => gs | None => [] end)
              (remove_comments (doc_tree exL 0%nat)) = FOk T /\ out_clean T = true.
Proof. exists ex_T1. vm_compute. split; reflexivity. Qed.
Print Assumptions C08_example.

Example C08_example_replace :
  exists T, xml_format (Cfg 0 true [] []) w_o [] Placeholder.ph_init
              (match render_script (fun _ => None) 0%nat exL exS with Some gs => gs | None => [] end)
              (remove_comments (doc_tree exL 0%nat)) = FOk T /\ out_clean T = true.
Proof. exists ex_T2. vm_compute. split; reflexivity. Qed.
Print Assumptions C08_example_replace.
