(* C01 -- theorems land here *)
Require Import XV.Differ XV.Spec.
