(* C01 -- "An edit script, applied to the left document, yields the right
   document: for any two documents and any combination of diff options, applying
   the edit script returned by the diff API to the left document with the patch
   API completes without error and produces a tree equal to the right document in
   tag names, attribute sets and values, text, tail text, comments and child
   order.  Equality ignores only namespace prefix spelling and the distinction
   between absent and empty text."

   Models (each validated against the Python implementation by differential
   testing): XV.Pipeline.diff_model = XV.Matcher.match_nodes (Differ.match)
   followed by XV.Differ.diff_given (Differ.diff); the similarity of two node
   texts is an ORACLE (sim, sim_ltb, sim_leb, sim_is_one, zero, one, leaf_sim,
   combine); the option record o carries F, uniqueattrs, fast_match, best_match
   and ignored_attrs.  XV.Spec.run_spec is the documented meaning of the actions
   (a strict interpreter: None as soon as a documented precondition fails);
   XV.PatcherDSL + XV.Gen.PatcherProg is the shipped patcher (handler programs
   GENERATED from xmldiff/patch.py); XV.Render turns identity-level actions into
   the namedtuples the differ yields (nodes as getpath strings).

   Hypotheses, in plain words:
   - the two oracle laws of the matcher theorem:  not (F <= 0)  and  0 != 1.0;
   - wf_forest f root (XV.WF): the document is a finite tree with tidy ids, the
     root is an element without tail, comments have no children/attributes,
     attribute names are distinct;
   - ns_prologue lns rns <> None: no prefix is bound to two different URIs by the
     two root namespace maps (otherwise Differ.diff raises RuntimeError);
   - valid_matching L R rootL rootR m (XV.WF), for C01_every_matching: what
     Differ.match() delivers (C07): injective, contains the root pair, only
     document nodes, never pairs a comment with an element.

   Conclusion.  tree_equivb (XV.Forest) compares the two trees node by node: same
   tag, same attribute set and values (sorted lists), same text, same tail (the
   tail of the root is outside the document), same children in the same order;
   None and "" are identified.  Tags are Clark names, so prefix spelling is
   immaterial.  Attributes in o's ignored_attrs are filtered out on both sides
   (node_attribs_d): with ignored_attrs = [] the comparison is on the full
   attribute sets (C01_no_ignored).  See C13 for the ignored attributes.

   - C01_script_sound: the whole pipeline.
   - C01_no_ignored: the same with ignored_attrs = [], the filter removed.
   - C01_every_matching: the differ half for EVERY valid matching, hence for all
     matcher options at once (F, uniqueattrs, fast_match, best_match, ratio_mode
     only influence the matching).
   - C01_roundtrip: "diff then patch": the shipped patcher applied to the rendered
     script returns (without error) a tree pointwise equal to the differ's final
     tree, hence equal to the right document.  Extra hypothesis script_ok
     (XV.PatcherProofs; checkable by script_okb): along the script the prefixes
     that getpath prints are bound in the namespaces= mapping, names are
     printable, and no InsertNamespace is for the default namespace (the shipped
     handler fails on nsmap[None]).
   Proofs: XV.PipelineProofs, XV.MatcherProofs, XV.DifferSound, XV.PatcherProofs. *)
From Coq Require Import List NArith ZArith Bool Arith.
Import ListNotations.
Require Import XV.Str XV.Json XV.TextFormat XV.Forest XV.Matcher XV.Differ XV.Spec XV.WF
               XV.Path XV.PatcherDSL XV.Render XV.Gen.TextTables XV.Gen.PatcherProg
               XV.DifferSound XV.PatcherProofs XV.Pipeline XV.PipelineProofs.

Theorem C01_script_sound :
  forall (sim : Type) (sim_ltb sim_leb : sim -> sim -> bool) (sim_is_one : sim -> bool)
         (zero one : sim) (leaf_sim : str -> str -> sim) (combine : sim -> nat -> nat -> sim)
         (o : mopts sim) (L R : forest) (rootL rootR : id) (lns rns : nsmap),
  sim_leb (oF sim o) zero = false -> sim_is_one zero = false ->
  wf_forest L rootL -> wf_forest R rootR ->
  ns_prologue lns rns <> None ->
  exists script W,
    diff_model sim sim_ltb sim_leb sim_is_one zero one leaf_sim combine o L R rootL rootR lns rns
      = Some (script, W)
    (* every action is applicable as documented, in order, and the run ends in W *)
    /\ run_spec rootL L script = Some W
    (* W, below rootL, is the right document *)
    /\ tree_equivb (tree_map_attrs (node_attribs_d (oignored sim o)) (to_tree (S (fnext W)) W rootL))
                   (tree_map_attrs (node_attribs_d (oignored sim o)) (to_tree (S (fnext R)) R rootR)) = true.
Proof.
  intros sim sim_ltb sim_leb sim_is_one zero one leaf_sim combine o L R rootL rootR lns rns HF H1.
  apply diff_model_sound. split; assumption.
Qed.
Print Assumptions C01_script_sound.

Theorem C01_no_ignored :
  forall (sim : Type) (sim_ltb sim_leb : sim -> sim -> bool) (sim_is_one : sim -> bool)
         (zero one : sim) (leaf_sim : str -> str -> sim) (combine : sim -> nat -> nat -> sim)
         (o : mopts sim) (L R : forest) (rootL rootR : id) (lns rns : nsmap),
  sim_leb (oF sim o) zero = false -> sim_is_one zero = false ->
  oignored sim o = [] ->
  wf_forest L rootL -> wf_forest R rootR ->
  ns_prologue lns rns <> None ->
  exists script W,
    diff_model sim sim_ltb sim_leb sim_is_one zero one leaf_sim combine o L R rootL rootR lns rns
      = Some (script, W)
    /\ run_spec rootL L script = Some W
    /\ tree_equivb (to_tree (S (fnext W)) W rootL) (to_tree (S (fnext R)) R rootR) = true.
Proof.
  intros sim sim_ltb sim_leb sim_is_one zero one leaf_sim combine o L R rootL rootR lns rns HF H1 Hi HL HR Hns.
  destruct (diff_model_sound sim sim_ltb sim_leb sim_is_one zero one leaf_sim combine
              o L R rootL rootR lns rns (conj HF H1) HL HR Hns) as (script & W & E1 & E2 & E3).
  exists script, W. rewrite Hi in E3. apply doc_equiv_nil in E3. auto.
Qed.
Print Assumptions C01_no_ignored.

Theorem C01_every_matching :
  forall (ignored : list str) (L R : forest) (rootL rootR : id) (m : list (id * id)),
  wf_forest L rootL -> wf_forest R rootR -> valid_matching L R rootL rootR m ->
  let s := gen_script ignored R rootR L rootL m in
  (* the Python code raises nowhere *)
  serr s = false
  (* replaying the emitted actions from L by their documented meaning succeeds
     and yields exactly the differ's working tree *)
  /\ (exists T, run_spec rootL L (out s) = Some T /\ forest_ext_eq T (W s))
  (* which is the right document *)
  /\ tree_equivb (tree_map_attrs (node_attribs_d ignored) (to_tree (S (fnext (W s))) (W s) rootL))
                 (tree_map_attrs (node_attribs_d ignored) (to_tree (S (fnext R)) R rootR)) = true.
Proof. exact gen_script_sound. Qed.
Print Assumptions C01_every_matching.

Theorem C01_roundtrip :
  forall (sim : Type) (sim_ltb sim_leb : sim -> sim -> bool) (sim_is_one : sim -> bool)
         (zero one : sim) (leaf_sim : str -> str -> sim) (combine : sim -> nat -> nat -> sim)
         (o : mopts sim) (L R : forest) (rootL rootR : id) (lns rns : nsmap)
         (pe : penv) (root_nsmap : list (option str * str)),
  sim_leb (oF sim o) zero = false -> sim_is_one zero = false ->
  wf_forest L rootL -> wf_forest R rootR ->
  ns_prologue lns rns <> None ->
  (* prefix policy: the paths of the script can be printed and resolved *)
  (forall script W,
     diff_model sim sim_ltb sim_leb sim_is_one zero one leaf_sim combine o L R rootL rootR lns rns
       = Some (script, W) ->
     script_ok pe rootL (nsmap_env root_nsmap) L script) ->
  exists script W gs T',
    (* diff *)
    diff_model sim sim_ltb sim_leb sim_is_one zero one leaf_sim combine o L R rootL rootR lns rns
      = Some (script, W)
    (* the actions as the API yields them *)
    /\ render_script pe rootL L script = Some gs
    (* patch: no error *)
    /\ patch actions_sig true rootL patcher_progs L root_nsmap gs = POk T'
    (* the patched tree is the differ's final tree ... *)
    /\ forest_ext_eq T' W
    (* ... and equal to the right document *)
    /\ tree_equivb (tree_map_attrs (node_attribs_d (oignored sim o)) (to_tree (S (fnext T')) T' rootL))
                   (tree_map_attrs (node_attribs_d (oignored sim o)) (to_tree (S (fnext R)) R rootR)) = true.
Proof.
  intros sim sim_ltb sim_leb sim_is_one zero one leaf_sim combine o L R rootL rootR lns rns pe root_nsmap
         HF H1 HL HR Hns Hok.
  destruct (diff_model_sound sim sim_ltb sim_leb sim_is_one zero one leaf_sim combine
              o L R rootL rootR lns rns (conj HF H1) HL HR Hns) as (script & W & E1 & E2 & E3).
  destruct (render_script_total pe rootL script L W E2) as [gs Hgs].
  destruct (patch_replays_script pe rootL L root_nsmap script W gs HL E2 Hgs (Hok script W E1))
    as (T' & P1 & P2).
  exists script, W, gs, T'. repeat (split; [assumption|]).
  exact (doc_equiv_ext (oignored sim o) T' W rootL R rootR P2 E3).
Qed.
Print Assumptions C01_roundtrip.

(* Non-vacuity.  L = <r><a k="1" i="7">x</a><b/></r>,
   R = <r><b/><a k="2" i="8">y</a><!--c-->t</r>, ignored_attrs = ["i"], F = 50%,
   similarities in percent (nat).  The hypotheses hold and the conclusion
   computes: the script moves <a>, updates k, sets the text, inserts the comment
   and its tail; replaying it on L gives R up to the ignored attribute i (and NOT
   exactly R: i="7" is still there). *)
Example C01_example :
  let L := mk_forest [(0, [1; 2])]
            [(0, Lab (TElem [114%N]) [] None None);
             (1, Lab (TElem [97%N]) [([107%N], [49%N]); ([105%N], [55%N])] (Some [120%N]) None);
             (2, Lab (TElem [98%N]) [] None None)] 3 in
  let R := mk_forest [(0, [1; 2; 3])]
            [(0, Lab (TElem [114%N]) [] None None);
             (1, Lab (TElem [98%N]) [] None None);
             (2, Lab (TElem [97%N]) [([107%N], [50%N]); ([105%N], [56%N])] (Some [121%N]) None);
             (3, Lab TComment [] (Some [99%N]) (Some [116%N]))] 4 in
  let leaf := fun a b : str => if str_eqb a b then 100 else
              match a, b with x :: _, y :: _ => if N.eqb x y then 60 else 10 | _, _ => 10 end in
  let comb := fun m c n : nat => if Nat.ltb 0 n && Nat.eqb c n then m else m * 70 / 100 in
  let is_one := fun x => Nat.eqb x 100 in
  let o := MOpts nat 50 [] false false [[105%N]] in
  let lns : nsmap := [(None, [117%N])] in
  let rns : nsmap := [(None, [117%N]); (Some [112%N], [118%N])] in
  let script := [IInsNs (Some [112%N]) [118%N]; IMove 1 0 1; IUpdAttr 1 [107%N] [50%N];
                 IText 1 (Some [121%N]); IInsertComment 0 2 (Some [99%N]) 3; ITail 3 (Some [116%N])] in
  (* hypotheses *)
  Nat.leb (oF nat o) 0 = false /\ is_one 0 = false /\
  wf_forest L 0 /\ wf_forest R 0 /\ ns_prologue lns rns <> None /\
  (* conclusion *)
  option_map fst (diff_model nat Nat.ltb Nat.leb is_one 0 100 leaf comb o L R 0 0 lns rns) = Some script /\
  match run_spec 0 L script with
  | Some T => tree_equivb (tree_map_attrs (node_attribs_d [[105%N]]) (doc_tree T 0))
                          (tree_map_attrs (node_attribs_d [[105%N]]) (doc_tree R 0)) = true
              /\ tree_equivb (doc_tree T 0) (doc_tree R 0) = false
  | None => False
  end.
Proof.
  cbv zeta.
  split; [reflexivity|]. split; [reflexivity|].
  split; [apply wf_forestb_sound; vm_compute; reflexivity|].
  split; [apply wf_forestb_sound; vm_compute; reflexivity|].
  split; [vm_compute; discriminate|].
  split; [vm_compute; reflexivity|].
  vm_compute. split; reflexivity.
Qed.
Print Assumptions C01_example.
