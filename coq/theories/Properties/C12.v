(* C12 -- placeholder until the proofs land; see LCSProofs.v *)
From Coq Require Import List ZArith.
Require Import XV.LCS.
