(* C12 -- utils.longest_common_subsequence (model: XV.LCS.lcs_seq, validated
   against the Python implementation by differential testing).

   For an ARBITRARY boolean predicate eqfn (no reflexivity, symmetry or
   transitivity assumed) and arbitrary lists xs, ys, the function
     - terminates normally with a result (no KeyError, never falls off the loop),
     - returns a list of index pairs (i, j) that is strictly increasing in both
       components, each pair designating elements xs[i], ys[j] with eqfn true,
     - and no list of index pairs with these properties is longer.
   Proofs: XV.LCSProofs. *)
From Coq Require Import List ZArith Sorting.Sorted.
Require Import XV.LCS XV.LCSProofs.
Local Open Scope Z_scope.

Theorem C12_total :
  forall (A B : Type) (eqfn : A -> B -> bool) (xs : list A) (ys : list B),
  exists ps : list (Z * Z), lcs_seq eqfn xs ys = Some ps.
Proof. exact (@lcs_seq_total). Qed.
Print Assumptions C12_total.

Theorem C12_valid :
  forall (A B : Type) (eqfn : A -> B -> bool) (xs : list A) (ys : list B)
         (ps : list (Z * Z)),
  lcs_seq eqfn xs ys = Some ps ->
  StronglySorted (fun p q => fst p < fst q /\ snd p < snd q) ps /\
  Forall (fun p => 0 <= fst p /\ 0 <= snd p /\
                   exists a b, nth_error xs (Z.to_nat (fst p)) = Some a /\
                               nth_error ys (Z.to_nat (snd p)) = Some b /\
                               eqfn a b = true) ps.
Proof. exact (@lcs_seq_valid). Qed.
Print Assumptions C12_valid.

Theorem C12_maximal :
  forall (A B : Type) (eqfn : A -> B -> bool) (xs : list A) (ys : list B)
         (ps qs : list (Z * Z)),
  lcs_seq eqfn xs ys = Some ps ->
  StronglySorted (fun p q => fst p < fst q /\ snd p < snd q) qs /\
  Forall (fun p => 0 <= fst p /\ 0 <= snd p /\
                   exists a b, nth_error xs (Z.to_nat (fst p)) = Some a /\
                               nth_error ys (Z.to_nat (snd p)) = Some b /\
                               eqfn a b = true) qs ->
  (length qs <= length ps)%nat.
Proof. exact (@lcs_seq_maximal). Qed.
Print Assumptions C12_maximal.
