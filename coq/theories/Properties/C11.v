(* C11 -- placeholder substitution is lossless and one-to-one.
   Model: XV.Placeholder (tied to xmldiff/formatting.py by harness/props/C11.py on every run).
   Only statements here; the proofs are in Placeholder{Proofs,Round,Undo,Final}.v.

   Vocabulary (all defined in those files, nothing assumed):
     ph_inv s      = inverse_tables s /\ injective_on_keys s /\ counter_ok s
     ph_wf tt fmt s = ph_inv s /\ good tt fmt s /\ p2t s <> []       (good: a T_SINGLE entry holds its key element,
                     intact or as do_tree leaves it; a T_OPEN entry holds a childless element with the tag and
                     attributes of its key).  Every maker driven through do_tree / mark_diff / wrap_diff (and
                     get_placeholder, unless it files a T_OPEN entry for an element with children) is ph_wf:
                     C11_wf_reachable.  Plain ph_inv is NOT enough for the round trip: C11_roundtrip_ph_inv_only_refuted.
     no_pua T      = no text/tail character of T lies in (U+E000, U+F8FF]
     room tt fmt s T = after do_tree on T the counter is still <= U+F8FF  (C11_room_sufficient: ctr s + 2|T| <= U+F8FF is enough)
     tree_equiv    = equality up to absent vs empty text
     key_norm      = keys compared as lxml serialises the element
   Fuel: undo_element recurses through the table, so the model carries fuel and answers Err EFuel when it runs
   out.  C11_roundtrip_any_fuel holds for EVERY fuel above the nesting depth of the document (i.e. the unbounded
   recursion of the Python code terminates with that answer); results do not depend on fuel (undo_element_mono).
   undo_tree, the function the correspondence check executes, runs with at least UNDO_DEPTH = 400 levels (the
   model's counterpart of Python's recursion limit): C11_roundtrip is stated for it, with the explicit guard
   xheight T < UNDO_DEPTH; C11_roundtrip_default_fuel: without the guard it still never returns a wrong document. *)
From Coq Require Import List NArith Bool.
Import ListNotations.
Require Import XV.Placeholder XV.PlaceholderProofs XV.PlaceholderRound XV.PlaceholderUndo XV.PlaceholderFinal.
Local Open Scope N_scope.

(* Every history of get_placeholder / mark_diff / wrap_diff / do_tree calls on a
   new maker (any text_tags / formatting_tags) leaves the two dictionaries
   inverse to each other, injective on (element, role, close) keys, and the
   counter equal to start + number of placeholders, all of them in (start, counter]. *)
Theorem C11_tables : forall tt fmt ops,
  let s := fold_left (ph_step tt fmt) ops ph_init in
  inverse_tables s /\ injective_on_keys s /\ counter_ok s.
Proof. exact tables_thm. Qed.
Print Assumptions C11_tables.

Theorem C11_same_key_same_ph : forall s k s' c,
  ph_inv s -> get_placeholder s k = (s', c) -> get_placeholder s' k = (s', c).
Proof. exact same_key_same_ph_thm. Qed.
Print Assumptions C11_same_key_same_ph.

(* keys are (element, role, close_ph): different elements or different roles never share a placeholder *)
Theorem C11_distinct : forall s k1 k2 c1 c2,
  ph_inv s -> key_norm k1 <> key_norm k2 ->
  placeholder_of s k1 = Some c1 -> placeholder_of s k2 = Some c2 -> c1 <> c2.
Proof. exact distinct_thm. Qed.
Print Assumptions C11_distinct.

(* an element (role, close) that got placeholder [c] gets [c] again after any
   further history of the same maker (other documents, marks, wraps), and asking
   again allocates nothing *)
Theorem C11_same_in_two_docs : forall tt fmt s k s1 c ops,
  ph_inv s -> get_placeholder s k = (s1, c) ->
  let s2 := fold_left (ph_step tt fmt) ops s1 in get_placeholder s2 k = (s2, c).
Proof. exact same_in_two_docs_key. Qed.
Print Assumptions C11_same_in_two_docs.

(* the same, for whole inline content: the children [ks] of a text element are
   replaced by the very same string whenever they are met again (in any later
   document, anything processed in between), so unchanged inline content
   compares as equal text *)
Theorem C11_same_in_two_docs_text : forall tt fmt s ks s1 txt mk ops,
  ph_inv s -> flat_kids fmt s ks = (s1, txt, mk) ->
  let s2 := fold_left (ph_step tt fmt) ops s1 in
  exists mk', flat_kids fmt s2 ks = (s2, txt, mk').
Proof. exact same_text_thm. Qed.
Print Assumptions C11_same_in_two_docs_text.

(* the states in the scope of the round trip *)
Theorem C11_wf_reachable : forall tt fmt ops,
  Forall safe_op ops -> ph_wf tt fmt (fold_left (ph_step tt fmt) ops ph_init).
Proof. exact wf_reachable. Qed.
Print Assumptions C11_wf_reachable.

Theorem C11_room_sufficient : forall tt fmt s T,
  ctr s + 2 * N.of_nat (xsize T) <= PUA_END -> room tt fmt s T.
Proof. exact room_sufficient. Qed.
Print Assumptions C11_room_sufficient.

(* Round trip: any document, any text / formatting tag subsets, any prior history. *)
Theorem C11_roundtrip : forall tt fmt s T s' T1,
  ph_wf tt fmt s -> no_pua T -> room tt fmt s T -> (xheight T < UNDO_DEPTH)%nat ->
  do_tree tt fmt s T = (s', T1) ->
  exists T2, undo_tree s' T1 = Ok T2 /\ tree_equiv T2 T.
Proof. exact roundtrip_thm. Qed.
Print Assumptions C11_roundtrip.

(* the same for documents of any depth: every fuel above the nesting depth gives the answer *)
Theorem C11_roundtrip_any_fuel : forall tt fmt s T s' T1,
  ph_wf tt fmt s -> no_pua T -> room tt fmt s T -> do_tree tt fmt s T = (s', T1) ->
  forall fuel, (xheight T < fuel)%nat ->
    exists T2, undo_tree_fuel fuel s' T1 = Ok T2 /\ tree_equiv T2 T.
Proof. exact roundtrip_fuel. Qed.
Print Assumptions C11_roundtrip_any_fuel.

(* whatever the depth, undo_tree never returns anything else (it can only run out of fuel) *)
Theorem C11_roundtrip_default_fuel : forall tt fmt s T s' T1 T2,
  ph_wf tt fmt s -> no_pua T -> room tt fmt s T -> do_tree tt fmt s T = (s', T1) ->
  undo_tree s' T1 = Ok T2 -> tree_equiv T2 T.
Proof. exact roundtrip_default_fuel. Qed.
Print Assumptions C11_roundtrip_default_fuel.

(* With only the table invariants as hypothesis the round trip is false: a
   T_OPEN entry filed through get_placeholder for <b><i/></b> makes
   <p><b><i/></b></p> come back as <p><b><i/><i/></b></p> (replayed on the code). *)
Theorem C11_roundtrip_ph_inv_only_refuted :
  exists tt fmt s T, ph_inv s /\ no_pua T /\ room tt fmt s T /\
    exists T2, undo_tree (fst (do_tree tt fmt s T)) (snd (do_tree tt fmt s T)) = Ok T2 /\ ~ tree_equiv T2 T.
Proof. exact roundtrip_ph_inv_only_refuted. Qed.
Print Assumptions C11_roundtrip_ph_inv_only_refuted.

(* "For any document" is false of the code: a text character in the placeholder range is taken for a
   placeholder by undo_tree even on a new maker that has replaced nothing.  <p>a&#xE001;b</p> comes back as
   <p>a<diff:insert/>b</p>; <p>a&#xE002;b</p> raises IndexError (both replayed on the code on every run).
   Hence the hypothesis no_pua in C11_roundtrip. *)
Theorem C11_roundtrip_any_document_refuted :
  (exists T2, room [[112]] [[98]] ph_init pua_T1 /\
     undo_tree (fst (do_tree [[112]] [[98]] ph_init pua_T1)) (snd (do_tree [[112]] [[98]] ph_init pua_T1)) = Ok T2 /\
     ~ tree_equiv T2 pua_T1) /\
  (room [[112]] [[98]] ph_init pua_T2 /\
     undo_tree (fst (do_tree [[112]] [[98]] ph_init pua_T2)) (snd (do_tree [[112]] [[98]] ph_init pua_T2)) = Err EIndex).
Proof. exact roundtrip_any_document_refuted. Qed.
Print Assumptions C11_roundtrip_any_document_refuted.
