(* C11 -- placeholder substitution is lossless and one-to-one.
   Model: XV.Placeholder (tied to xmldiff/formatting.py by harness/props/C11.py).
   Only statements here; the proofs are in PlaceholderProofs.v / PlaceholderRound.v. *)
From Coq Require Import List NArith Bool.
Import ListNotations.
Require Import XV.Placeholder XV.PlaceholderProofs.
Local Open Scope N_scope.

(* Every history of get_placeholder / mark_diff / wrap_diff / do_tree calls on a
   new maker (any text_tags / formatting_tags) leaves the two dictionaries
   inverse to each other, injective on (element, role, close) keys, and the
   counter equal to start + number of placeholders, all of them in (start, counter]. *)
Theorem C11_tables : forall tt fmt ops,
  let s := fold_left (ph_step tt fmt) ops ph_init in
  inverse_tables s /\ injective_on_keys s /\ counter_ok s.
Proof. exact tables_thm. Qed.
Print Assumptions C11_tables.

Theorem C11_same_key_same_ph : forall s k s' c,
  ph_inv s -> get_placeholder s k = (s', c) -> get_placeholder s' k = (s', c).
Proof. exact same_key_same_ph_thm. Qed.
Print Assumptions C11_same_key_same_ph.

(* keys are (element, role, close_ph), elements compared as lxml serialises
   them ([key_norm]): different elements or different roles never share a placeholder *)
Theorem C11_distinct : forall s k1 k2 c1 c2,
  ph_inv s -> key_norm k1 <> key_norm k2 ->
  placeholder_of s k1 = Some c1 -> placeholder_of s k2 = Some c2 -> c1 <> c2.
Proof. exact distinct_thm. Qed.
Print Assumptions C11_distinct.

(* an element (role, close) that got placeholder [c] gets [c] again after any
   further history of the same maker (other documents, marks, wraps), and asking
   again allocates nothing *)
Theorem C11_same_in_two_docs : forall tt fmt s k s1 c ops,
  ph_inv s -> get_placeholder s k = (s1, c) ->
  let s2 := fold_left (ph_step tt fmt) ops s1 in get_placeholder s2 k = (s2, c).
Proof. exact same_in_two_docs_key. Qed.
Print Assumptions C11_same_in_two_docs.
