(* The textual edit-script format: DiffFormatter (formatting.py) and DiffParser
   (patch.py), as GENERIC interpreters over tables that the translator reads out
   of the source on every run (Gen/TextTables.v).  Model only -- no proofs here. *)
From Coq Require Import List NArith ZArith Bool.
Import ListNotations.
Require Export XV.Str XV.Json.
Local Open Scope N_scope.

Inductive enc := ERaw | EJson | EInt.
Definition enc_eqb (a b : enc) : bool :=
  match a, b with ERaw, ERaw | EJson, EJson | EInt, EInt => true | _, _ => false end.

(* An action as the Python code sees it: the namedtuple's class name and its
   field values in declaration order. *)
Record gaction := GA { ga_ctor : str; ga_fields : list pyval }.

Record fmt_entry := { fe_ctor : str; fe_keyword : str; fe_fields : list (str * enc) }.
(* _handle_<method>(self, p_0 .. p_{n-1}) : return actions.<ctor>(dec_0(p_{i0}), ...) *)
(* pe_rest: the handler ends in *more and joins its last named parameter and the surplus ones with commas
   (_handle_insert_namespace: a namespace URI is written verbatim and may contain commas) *)
Record parse_entry := { pe_method : str; pe_ctor : str; pe_nparams : nat; pe_args : list (nat * enc); pe_rest : bool }.
Record text_tables := {
  tt_sig : list (str * list str);
  tt_line_sep : str; tt_pre : str; tt_post : str; tt_field_sep : str;
  tt_fmt : list fmt_entry; tt_parse : list parse_entry }.

Inductive err := ETypeError | EValueError | EAttributeError | EIndexError.
Inductive res (A : Type) := Ok (a : A) | Err (e : err).
Arguments Ok {A} a. Arguments Err {A} e.

Definition bind {A B} (r : res A) (f : A -> res B) : res B :=
  match r with Ok a => f a | Err e => Err e end.
Fixpoint mapM {A B} (f : A -> res B) (l : list A) : res (list B) :=
  match l with
  | [] => Ok []
  | x :: r => bind (f x) (fun y => bind (mapM f r) (fun ys => Ok (y :: ys)))
  end.

Fixpoint index_of (x : str) (l : list str) : option nat :=
  match l with
  | [] => None
  | y :: r => if str_eqb x y then Some O else option_map S (index_of x r)
  end.

Definition pyval_eqb (a b : pyval) : bool :=
  match a, b with
  | PStr x, PStr y => str_eqb x y
  | PNone, PNone => true
  | PInt x, PInt y => Z.eqb x y
  | _, _ => false
  end.
Fixpoint list_eqb {A} (f : A -> A -> bool) (a b : list A) : bool :=
  match a, b with
  | [], [] => true
  | x :: a', y :: b' => f x y && list_eqb f a' b'
  | _, _ => false
  end.
Definition gaction_eqb (a b : gaction) : bool :=
  str_eqb (ga_ctor a) (ga_ctor b) && list_eqb pyval_eqb (ga_fields a) (ga_fields b).

(* ---------------- DiffFormatter ---------------- *)

(* what ends up in the tuple handed to ", ".join *)
Definition encode (e : enc) (v : pyval) : res str :=
  match e, v with
  | ERaw, PStr s => Ok s
  | ERaw, _ => Err ETypeError              (* join: expected str instance *)
  | EJson, v => Ok (dumps v)
  | EInt, PInt z => Ok (str_of_Z z)
  | EInt, PStr s => Ok s                   (* str(s) *)
  | EInt, PNone => Ok [78; 111; 110; 101]  (* "None" *)
  end.

Definition find_fmt (T : text_tables) (ctor : str) : option fmt_entry :=
  find (fun fe => str_eqb (fe_ctor fe) ctor) (tt_fmt T).
Definition sig_fields (T : text_tables) (ctor : str) : option (list str) :=
  option_map snd (find (fun p => str_eqb (fst p) ctor) (tt_sig T)).

Definition field_value (T : text_tables) (a : gaction) (fname : str) : res pyval :=
  match sig_fields T (ga_ctor a) with
  | None => Err EAttributeError
  | Some fl => match index_of fname fl with
               | None => Err EAttributeError
               | Some i => match nth_error (ga_fields a) i with
                           | Some v => Ok v
                           | None => Err EAttributeError
                           end
               end
  end.

Definition format_action (T : text_tables) (a : gaction) : res str :=
  match find_fmt T (ga_ctor a) with
  | None => Err EAttributeError
  | Some fe =>
      bind (mapM (fun fe' : str * enc => bind (field_value T a (fst fe')) (encode (snd fe'))) (fe_fields fe))
           (fun parts => Ok (tt_pre T ++ join (tt_field_sep T) (fe_keyword fe :: parts) ++ tt_post T))
  end.

Definition format (T : text_tables) (acts : list gaction) : res str :=
  bind (mapM (format_action T) acts) (fun lines => Ok (join (tt_line_sep T) lines)).

(* ---------------- DiffParser ---------------- *)

(* DiffParser._split: commas outside JSON string literals and outside the namespace part of a Clark name
   ({uri}name at the beginning of a field: `not part[:-1].strip()`) separate parameters.
   part and parts are accumulated reversed. *)
Definition blankb (part : str) : bool := forallb is_space part.
Fixpoint split_aux (s : str) (part : str) (in_clark in_string escaped : bool) (parts : list str) : list str :=
  match s with
  | [] => rev (rev part :: parts)
  | c :: r =>
      if in_clark then split_aux r (c :: part) (negb (c =? 125)) in_string escaped parts
      else if in_string then
        if escaped then split_aux r (c :: part) false true false parts
        else if c =? 92 then split_aux r (c :: part) false true true parts
        else if c =? 34 then split_aux r (c :: part) false false false parts
        else split_aux r (c :: part) false true false parts
      else if c =? 44 then split_aux r [] false false escaped (rev part :: parts)
      else split_aux r (c :: part) ((c =? 123) && blankb part) (c =? 34) escaped parts
  end.
Definition split_params (line : str) : list str := split_aux line [] false false false [].

(* def h(self, p_0 .. p_{n-1}, *more): p_{n-1} stands for ",".join((p_{n-1},) + more) *)
Definition merge_rest (n : nat) (ps : list str) : list str :=
  match n with
  | O => ps
  | S m => if Nat.ltb (length ps) n then ps else firstn m ps ++ [join [44] (skipn m ps)]
  end.

Definition decode (e : enc) (s : str) : res pyval :=
  match e with
  | ERaw => Ok (PStr s)
  | EInt => match int_of_str s with Some z => Ok (PInt z) | None => Err EValueError end
  | EJson => match loads s with
             | JVal v => Ok v
             | JOther => Err EValueError    (* see Json.v: outside the modelled fragment *)
             | JErr => Err EValueError
             end
  end.

Definition method_name (action : str) : str := replace_char 45 95 action.
Definition find_parse (T : text_tables) (action : str) : option parse_entry :=
  find (fun pe => str_eqb (pe_method pe) (method_name action)) (tt_parse T).

Definition make_action (T : text_tables) (line : str) : res gaction :=
  let inner := removelast (tl line) in          (* line[1:-1] *)
  match map strip (split_params inner) with
  | [] => Err EIndexError
  | action :: params =>
      match find_parse T action with
      | None => Err EAttributeError
      | Some pe =>
          let params := if pe_rest pe then merge_rest (pe_nparams pe) params else params in
          if negb (Nat.eqb (length params) (pe_nparams pe)) then Err ETypeError
          else bind (mapM (fun a : nat * enc => match nth_error params (fst a) with
                                                | Some p => decode (snd a) p
                                                | None => Err ETypeError
                                                end) (pe_args pe))
                    (fun vs => Ok (GA (pe_ctor pe) vs))
      end
  end.

Fixpoint parse_lines (T : text_tables) (incomplete : str) (lines : list str) : res (list gaction) :=
  match lines with
  | [] => match incomplete with [] => Ok [] | _ => Err EValueError end
  | l :: r =>
      let line := incomplete ++ l in
      match line with
      | [] => Err EIndexError                                   (* line[0] on an empty line *)
      | c :: _ =>
          if negb (c =? 91) then Err EValueError
          else if negb (last line 0 =? 93) then parse_lines T line r
          else bind (make_action T line) (fun a => bind (parse_lines T [] r) (fun as_ => Ok (a :: as_)))
      end
  end.

Definition parse (T : text_tables) (diff : str) : res (list gaction) :=
  parse_lines T [] (splitlines diff).
