(* Proofs about the white-space model (C14): re-indentation of a layered document
   is invisible once ignorable white space is stripped, stripping is idempotent,
   and without stripping re-indentation changes a text or tail field of every
   element that has a child node. *)
From Coq Require Import List NArith Bool Arith Lia.
Import ListNotations.
Require Import XV.Str XV.Whitespace.
Local Open Scope N_scope.

(* ---------------- induction over the nested type ---------------- *)
Section item_ind'.
  Variable P : item -> Prop.
  Hypothesis Htext : forall s, P (IText s).
  Hypothesis Hcomment : forall s, P (IComment s).
  Hypothesis Helem : forall t a c, Forall P c -> P (IElem t a c).
  Fixpoint item_ind' (x : item) : P x :=
    match x with
    | IText s => Htext s
    | IComment s => Hcomment s
    | IElem t a c =>
        Helem t a c ((fix go (l : list item) : Forall P l :=
                        match l with
                        | [] => Forall_nil _
                        | y :: r => Forall_cons _ (item_ind' y) (go r)
                        end) c)
    end.
End item_ind'.

Definition nodes (l : list item) : list item := filter (fun x => negb (is_text x)) l.
Definition blank_texts (l : list item) : bool :=
  forallb (fun y => match y with IText s => blank s | _ => true end) l.
(* f maps child nodes to child nodes *)
Definition keeps_nodes (f : item -> item) : Prop := forall x, is_text x = false -> is_text (f x) = false.

Lemma strip_item_keeps : keeps_nodes strip_item.
Proof. intros [s | t a c | s] Hx; simpl in *; congruence. Qed.
Lemma reindent_item_keeps s d : keeps_nodes (reindent_item s d).
Proof. intros [s' | t a c | s'] Hx; simpl in *; congruence. Qed.

(* ---------------- unfolding lemmas for strip_items ---------------- *)
Lemma strip_items_nil f e s : strip_items f e s [] = [].
Proof. reflexivity. Qed.

Lemma strip_items_text f e s t rest :
  strip_items f e s (IText t :: rest) =
  if blank t && drop_blank e s rest then strip_items f e s rest
  else IText t :: strip_items f false true rest.
Proof. reflexivity. Qed.

Lemma strip_items_node f e s x rest :
  is_text x = false -> strip_items f e s (x :: rest) = f x :: strip_items f false s rest.
Proof. destruct x; simpl; intros Hx; try discriminate; reflexivity. Qed.

Lemma drop_blank_node e x rest : is_text x = false -> drop_blank e false (x :: rest) = true.
Proof. destruct x; simpl; intros Hx; try discriminate; reflexivity. Qed.

Lemma strip_items_ext f g l : forall e s,
  (forall y, In y l -> f y = g y) -> strip_items f e s l = strip_items g e s l.
Proof.
  induction l as [| x r IH]; intros e s H; [reflexivity |].
  destruct x as [t | t a c | t].
  - rewrite !strip_items_text. rewrite !(IH _ _ (fun y Hy => H y (or_intror Hy))). reflexivity.
  - rewrite !strip_items_node by reflexivity. rewrite (H _ (or_introl eq_refl)).
    rewrite (IH _ _ (fun y Hy => H y (or_intror Hy))). reflexivity.
  - rewrite !strip_items_node by reflexivity. rewrite (H _ (or_introl eq_refl)).
    rewrite (IH _ _ (fun y Hy => H y (or_intror Hy))). reflexivity.
Qed.

(* once character data has been kept, everything is kept *)
Lemma strip_seen f l : forall e,
  strip_items f e true l = map (fun x => if is_text x then x else f x) l.
Proof.
  induction l as [| x r IH]; intros e; [reflexivity |].
  destruct x as [t | t a c | t].
  - rewrite strip_items_text. unfold drop_blank. simpl negb. rewrite andb_false_r. simpl. now rewrite IH.
  - rewrite strip_items_node by reflexivity. simpl. now rewrite IH.
  - rewrite strip_items_node by reflexivity. simpl. now rewrite IH.
Qed.

(* ---------------- layered content ---------------- *)

Lemma no_adjacent_tail x r : no_adjacent_texts (x :: r) = true -> no_adjacent_texts r = true.
Proof. destruct x, r as [| [] r']; simpl; intros H; try reflexivity; try discriminate; exact H. Qed.

Lemma no_adjacent_text_head t r :
  no_adjacent_texts (IText t :: r) = true -> match r with IText _ :: _ => False | _ => True end.
Proof. destruct r as [| [] r']; simpl; intros H; try exact I; discriminate. Qed.

(* children interleaved with ignorable white space: only the child nodes survive *)
Lemma strip_structured_ff f l :
  blank_texts l = true -> no_adjacent_texts l = true ->
  strip_items f false false l = map f (nodes l).
Proof.
  induction l as [| x r IH]; intros Hb Hn; [reflexivity |].
  pose proof (no_adjacent_tail _ _ Hn) as Hn'.
  simpl in Hb. apply andb_true_iff in Hb as [Hx Hb].
  destruct x as [t | t a c | t].
  - rewrite strip_items_text, Hx. pose proof (no_adjacent_text_head _ _ Hn) as Hh.
    assert (Hd : drop_blank false false r = true) by (destruct r as [| [] r']; simpl in *; tauto).
    rewrite Hd. simpl. exact (IH Hb Hn').
  - rewrite strip_items_node by reflexivity. simpl. now rewrite (IH Hb Hn').
  - rewrite strip_items_node by reflexivity. simpl. now rewrite (IH Hb Hn').
Qed.

Lemma strip_structured f l :
  structured l = true -> blank_texts l = true -> no_adjacent_texts l = true ->
  strip_items f true false l = map f (nodes l).
Proof.
  induction l as [| x r IH]; intros Hs Hb Hn; [discriminate |].
  pose proof (no_adjacent_tail _ _ Hn) as Hn'.
  pose proof Hb as Hb0. simpl in Hb. apply andb_true_iff in Hb as [Hx Hb].
  destruct x as [t | t a c | t].
  - rewrite strip_items_text, Hx. pose proof (no_adjacent_text_head _ _ Hn) as Hh.
    simpl in Hs.
    assert (Hd : drop_blank true false r = true) by (destruct r as [| [] r']; simpl in *; try tauto; discriminate).
    rewrite Hd. simpl. exact (IH Hs Hb Hn').
  - rewrite strip_items_node by reflexivity. simpl. now rewrite (strip_structured_ff f r Hb Hn').
  - rewrite strip_items_node by reflexivity. simpl. now rewrite (strip_structured_ff f r Hb Hn').
Qed.

(* ---------------- the re-indented content ---------------- *)

Lemma is_blank_unit s : is_blank_ch (unit_char s) = true.
Proof. unfold unit_char. destruct (sc_tabs s); reflexivity. Qed.

Lemma blank_indent s d : blank (indent s d) = true.
Proof.
  unfold indent, blank. simpl. induction (sc_width s * d)%nat as [| n IH]; [reflexivity |].
  simpl. now rewrite is_blank_unit.
Qed.

Lemma strip_reindented_ff f g i i' l :
  keeps_nodes g -> blank i = true -> blank i' = true ->
  strip_items f false false (reindent_children g i l ++ [IText i']) = map (fun y => f (g y)) (nodes l).
Proof.
  intros Hg Hi Hi'. induction l as [| x r IH].
  - simpl. rewrite Hi'. reflexivity.
  - destruct x as [t | t a c | t]; [exact IH | |].
    + change (reindent_children g i (IElem t a c :: r)) with (IText i :: g (IElem t a c) :: reindent_children g i r).
      simpl app. rewrite strip_items_text, Hi, drop_blank_node by (apply Hg; reflexivity).
      simpl andb. cbv iota. rewrite strip_items_node by (apply Hg; reflexivity). simpl. now rewrite IH.
    + change (reindent_children g i (IComment t :: r)) with (IText i :: g (IComment t) :: reindent_children g i r).
      simpl app. rewrite strip_items_text, Hi, drop_blank_node by (apply Hg; reflexivity).
      simpl andb. cbv iota. rewrite strip_items_node by (apply Hg; reflexivity). simpl. now rewrite IH.
Qed.

Lemma strip_reindented f g i i' l :
  keeps_nodes g -> blank i = true -> blank i' = true -> structured l = true ->
  strip_items f true false (reindent_children g i l ++ [IText i']) = map (fun y => f (g y)) (nodes l).
Proof.
  intros Hg Hi Hi'. induction l as [| x r IH]; intros Hs; [discriminate |].
  destruct x as [t | t a c | t]; [exact (IH Hs) | |].
  - change (reindent_children g i (IElem t a c :: r)) with (IText i :: g (IElem t a c) :: reindent_children g i r).
    simpl app. rewrite strip_items_text, Hi, drop_blank_node by (apply Hg; reflexivity).
    simpl andb. cbv iota. rewrite strip_items_node by (apply Hg; reflexivity). simpl.
    now rewrite (strip_reindented_ff f g i i' r Hg Hi Hi').
  - change (reindent_children g i (IComment t :: r)) with (IText i :: g (IComment t) :: reindent_children g i r).
    simpl app. rewrite strip_items_text, Hi, drop_blank_node by (apply Hg; reflexivity).
    simpl andb. cbv iota. rewrite strip_items_node by (apply Hg; reflexivity). simpl.
    now rewrite (strip_reindented_ff f g i i' r Hg Hi Hi').
Qed.

(* ---------------- C14 (2): re-indentation is invisible under stripping ---------------- *)

Theorem reindent_invisible_at : forall s x d,
  layered x = true -> strip_item (reindent_item s d x) = strip_item x.
Proof.
  intros s x. induction x as [t | t | t a c IH] using item_ind'; intros d Hl; [reflexivity | reflexivity |].
  simpl in Hl. apply andb_true_iff in Hl as [Hc Hall].
  simpl. f_equal. unfold layered_content in Hc.
  destruct (structured c) eqn:Hs; [| reflexivity].
  apply andb_true_iff in Hc as [Hb Hn].
  rewrite (strip_reindented strip_item (reindent_item s (S d)) _ _ c
             (reindent_item_keeps s (S d)) (blank_indent s (S d)) (blank_indent s d) Hs).
  rewrite (strip_structured strip_item c Hs Hb Hn).
  apply map_ext_in. intros y Hy. unfold nodes in Hy. apply filter_In in Hy as [Hy _].
  rewrite Forall_forall in IH. apply IH; [exact Hy |].
  rewrite forallb_forall in Hall. exact (Hall y Hy).
Qed.

Theorem reindent_invisible : forall s x,
  layered x = true -> strip_blank (reindent s x) = strip_blank x.
Proof. intros s x. exact (reindent_invisible_at s x 0). Qed.

(* ---------------- stripping is idempotent ---------------- *)

Lemma drop_blank_seen_tail f e s rest :
  keeps_nodes f -> drop_blank e s (strip_items f false true rest) = drop_blank e s rest.
Proof.
  intros Hf. rewrite strip_seen. destruct rest as [| x r]; [reflexivity |].
  destruct x as [t | t a c | t]; simpl; try reflexivity.
  - pose proof (Hf (IElem t a c) eq_refl) as H. destruct (f (IElem t a c)); simpl in *; try discriminate; reflexivity.
  - pose proof (Hf (IComment t) eq_refl) as H. destruct (f (IComment t)); simpl in *; try discriminate; reflexivity.
Qed.

Lemma strip_items_twice f g l : keeps_nodes f -> forall e s,
  strip_items g e s (strip_items f e s l) = strip_items (fun x => g (f x)) e s l.
Proof.
  intros Hf. induction l as [| x r IH]; intros e s; [reflexivity |].
  destruct x as [t | t a c | t].
  - rewrite !strip_items_text. destruct (blank t && drop_blank e s r) eqn:Hd.
    + apply IH.
    + rewrite strip_items_text, (drop_blank_seen_tail f e s r Hf), Hd. now rewrite IH.
  - rewrite (strip_items_node f) by reflexivity. rewrite (strip_items_node (fun x => g (f x))) by reflexivity.
    rewrite strip_items_node by (apply Hf; reflexivity). now rewrite IH.
  - rewrite (strip_items_node f) by reflexivity. rewrite (strip_items_node (fun x => g (f x))) by reflexivity.
    rewrite strip_items_node by (apply Hf; reflexivity). now rewrite IH.
Qed.

Theorem strip_idempotent : forall x, strip_blank (strip_blank x) = strip_blank x.
Proof.
  unfold strip_blank. induction x as [t | t | t a c IH] using item_ind'; [reflexivity | reflexivity |].
  simpl. f_equal. rewrite (strip_items_twice strip_item strip_item c strip_item_keeps).
  apply strip_items_ext. intros y Hy. rewrite Forall_forall in IH. exact (IH y Hy).
Qed.

(* ---------------- C14 (2'): without stripping, re-indentation is visible ---------------- *)

Lemma all_nodes_leading l : forallb (fun y => negb (is_text y)) l = true -> leading_text l = None.
Proof. destruct l as [| [] r]; simpl; intros H; try reflexivity; discriminate. Qed.

Lemma forallb_rev {A} (p : A -> bool) l : forallb p l = true -> forallb p (rev l) = true.
Proof.
  intros H. apply forallb_forall. intros x Hx. apply in_rev in Hx.
  rewrite forallb_forall in H. exact (H x Hx).
Qed.

(* In a document without ignorable white space, every element with a child node
   gets a new text (None -> the indentation of its children) and its last child
   node a new tail (None -> the indentation of the element's end tag). *)
Theorem reindent_visible_here : forall s d t a c,
  structured c = true -> forallb (fun y => negb (is_text y)) c = true ->
  exists c', reindent_item s d (IElem t a c) = IElem t a c' /\
             leading_text c = None /\ leading_text c' = Some (indent s (S d)) /\
             trailing_text c = None /\ trailing_text c' = Some (indent s d).
Proof.
  intros s d t a c Hs Hall. eexists. split; [simpl; rewrite Hs; reflexivity |].
  split; [exact (all_nodes_leading c Hall) |]. split.
  - destruct c as [| x r]; [discriminate |]. simpl in Hall. apply andb_true_iff in Hall as [Hx _].
    destruct x; simpl in *; try discriminate; reflexivity.
  - split.
    + unfold trailing_text. apply all_nodes_leading, forallb_rev, Hall.
    + unfold trailing_text. rewrite rev_app_distr. reflexivity.
Qed.

Lemma in_reindent_children g i y l :
  In y l -> is_text y = false -> In (g y) (reindent_children g i l).
Proof.
  induction l as [| x r IH]; intros Hin Hy; [contradiction |].
  destruct Hin as [-> | Hin].
  - destruct y; simpl in *; try discriminate; right; left; reflexivity.
  - destruct x; simpl; [apply IH; assumption | right; right; apply IH; assumption ..].
Qed.

Lemma in_structured y l : In y l -> is_text y = false -> structured l = true.
Proof.
  intros Hin Hy. unfold structured. apply existsb_exists. exists y. split; [exact Hin | now rewrite Hy].
Qed.

(* every descendant node keeps its place and is itself re-indented at its depth *)
Theorem reindent_desc : forall s d x d' z,
  desc d x d' z -> is_text z = false -> desc d (reindent_item s d x) d' (reindent_item s d' z).
Proof.
  intros s d x d' z H. induction H as [d x | d t a c y d' z Hin Hd IH]; intros Hz; [constructor |].
  assert (Hy : is_text y = false).
  { inversion Hd; subst; [exact Hz | reflexivity]. }
  simpl. rewrite (in_structured y c Hin Hy).
  eapply desc_child; [| exact (IH Hz)].
  apply in_or_app. left. apply in_reindent_children; assumption.
Qed.

Lemma compact_desc : forall d x d' z, desc d x d' z -> compact x = true -> compact z = true.
Proof.
  intros d x d' z H. induction H as [d x | d t a c y d' z Hin Hd IH]; intros Hc; [exact Hc |].
  simpl in Hc. apply andb_true_iff in Hc as [_ Hc]. rewrite forallb_forall in Hc. exact (IH (Hc y Hin)).
Qed.

(* C14_reindent_visible: in a document T without ignorable white space, for every
   element e of T (at depth d') that has a child node, the corresponding element
   of the re-indented document is `reindent_item s d' e`, whose text and whose
   last child's tail are new white space where e had none. *)
Theorem reindent_visible : forall s T d' t a c,
  compact T = true -> desc 0 T d' (IElem t a c) -> structured c = true ->
  exists c', desc 0 (reindent s T) d' (IElem t a c') /\
             leading_text c = None /\ leading_text c' = Some (indent s (S d')) /\
             trailing_text c = None /\ trailing_text c' = Some (indent s d').
Proof.
  intros s T d' t a c Hc Hd Hs.
  pose proof (compact_desc _ _ _ _ Hd Hc) as Hce. simpl in Hce. rewrite Hs in Hce.
  apply andb_true_iff in Hce as [Hall _].
  destruct (reindent_visible_here s d' t a c Hs Hall) as (c' & He & H1 & H2 & H3 & H4).
  exists c'. split; [| tauto].
  rewrite <- He. exact (reindent_desc s 0 T d' (IElem t a c) Hd eq_refl).
Qed.

(* hence the re-indented document is a different tree *)
Corollary reindent_differs : forall s t a c,
  compact (IElem t a c) = true -> structured c = true -> reindent s (IElem t a c) <> IElem t a c.
Proof.
  intros s t a c Hc Hs Heq.
  destruct (reindent_visible s (IElem t a c) 0 t a c Hc (desc_here _ _) Hs) as (c' & Hd & H1 & H2 & _).
  rewrite Heq in Hd. inversion Hd as [| ? ? ? ? y ? ? Hin Hy]; subst.
  - rewrite H1 in H2. discriminate.
  - (* a descendant at depth 0 below depth 1: impossible *)
    assert (Hge : forall d x d'' z, desc d x d'' z -> (d <= d'')%nat).
    { intros d x d'' z Hx. induction Hx; lia. }
    apply Hge in Hy. lia.
Qed.

(* two indentation widths give two different documents (whatever white space the
   original had): the text of every element with a child node is the indentation *)
Lemma reindent_children_leading g i i' l :
  structured l = true -> leading_text (reindent_children g i l ++ [IText i']) = Some i.
Proof.
  induction l as [| x r IH]; intros Hs; [discriminate |].
  destruct x as [t | t a c | t]; [exact (IH Hs) | reflexivity | reflexivity].
Qed.

Theorem reindent_widths_differ : forall s s' t a c,
  structured c = true -> sc_width s <> sc_width s' ->
  reindent s (IElem t a c) <> reindent s' (IElem t a c).
Proof.
  intros s s' t a c Hs Hw Heq. unfold reindent in Heq. simpl in Heq. rewrite Hs in Heq.
  injection Heq as Heq. apply (f_equal leading_text) in Heq.
  rewrite !(reindent_children_leading _ _ _ c Hs) in Heq. injection Heq as Heq.
  apply (f_equal (@length N)) in Heq. rewrite !repeat_length in Heq. lia.
Qed.
