(* diff_bisect, part 1: an abstract (array-free) description of the two k-loops of the
   middle-snake search and the proof that the model's loops compute it.

   A "half" is one of the two searches (front / reverse), seen in its OWN coordinates:
   the reverse search is the front search on the reversed texts.  The arrays v1 / v2 are
   seen as functions [Z -> Z] from the diagonal k to the stored x ([-1] = nothing stored).

   NO claim about the search is made here; see DMPBisect2.v .. *)
From Coq Require Import List ZArith NArith Bool Lia.
Import ListNotations.
Require Import XV.DMP XV.DMPBase.
Local Open Scope Z_scope.

(* boolean comparisons in hypotheses -> propositions *)
Ltac bz := repeat match goal with
  | H : (_ >? _) = _ |- _ => rewrite Z.gtb_ltb in H
  | H : (_ >=? _) = _ |- _ => rewrite Z.geb_leb in H
  | H : (_ <? _) = true |- _ => apply Z.ltb_lt in H
  | H : (_ <? _) = false |- _ => apply Z.ltb_ge in H
  | H : (_ <=? _) = true |- _ => apply Z.leb_le in H
  | H : (_ <=? _) = false |- _ => apply Z.leb_gt in H
  | H : (_ =? _) = true |- _ => apply Z.eqb_eq in H
  | H : (_ =? _) = false |- _ => apply Z.eqb_neq in H
  end.

(* ------------------------------------------------------------------ *)
(** * lists as arrays *)

Definition nthZ {A} (d : A) (l : list A) (i : Z) : A := nth (Z.to_nat i) l d.
Definition aget (l : list Z) (i : Z) : Z := nthZ (-1) l i.
Definition aset {A} (l : list A) (i : Z) (v : A) : list A :=
  firstn (Z.to_nat i) l ++ v :: skipn (S (Z.to_nat i)) l.

Lemma py_get_nthZ {A} (d : A) (l : list A) i : 0 <= i < zlen l -> py_get l i = Ok (nthZ d l i).
Proof.
  intros H. unfold py_get, normi, in_range, nthZ.
  destruct (i <? 0) eqn:E1; [apply Z.ltb_lt in E1; lia|].
  destruct (0 <=? i) eqn:E2; [|apply Z.leb_gt in E2; lia].
  destruct (i <? zlen l) eqn:E3; [|apply Z.ltb_ge in E3; lia].
  cbn [andb].
  destruct (nth_error l (Z.to_nat i)) eqn:E4.
  - f_equal. symmetry. apply nth_error_nth. exact E4.
  - apply nth_error_None in E4. unfold zlen in H. lia.
Qed.

Lemma py_get_neg {A} (d : A) (l : list A) i : 0 <= i < zlen l ->
  py_get l (- i - 1) = Ok (nthZ d l (zlen l - 1 - i)).
Proof.
  intros H. unfold py_get, normi, in_range, nthZ.
  destruct (- i - 1 <? 0) eqn:E1; [|apply Z.ltb_ge in E1; lia].
  replace (- i - 1 + zlen l) with (zlen l - 1 - i) by lia.
  destruct (0 <=? zlen l - 1 - i) eqn:E2; [|apply Z.leb_gt in E2; lia].
  destruct (zlen l - 1 - i <? zlen l) eqn:E3; [|apply Z.ltb_ge in E3; lia].
  cbn [andb].
  destruct (nth_error l (Z.to_nat (zlen l - 1 - i))) eqn:E4.
  - f_equal. symmetry. apply nth_error_nth. exact E4.
  - apply nth_error_None in E4. unfold zlen in *. lia.
Qed.

Lemma py_set_aset {A} (l : list A) i v : 0 <= i < zlen l -> py_set l i v = Ok (aset l i v).
Proof.
  intros H. unfold py_set, normi, in_range, aset.
  destruct (i <? 0) eqn:E1; [apply Z.ltb_lt in E1; lia|].
  destruct (0 <=? i) eqn:E2; [|apply Z.leb_gt in E2; lia].
  destruct (i <? zlen l) eqn:E3; [|apply Z.ltb_ge in E3; lia].
  reflexivity.
Qed.

Lemma nth_upd {A} (l : list A) n v d j : (n < length l)%nat ->
  nth j (firstn n l ++ v :: skipn (S n) l) d = if Nat.eqb j n then v else nth j l d.
Proof.
  revert n j. induction l as [|a l IH]; intros n j Hn; cbn [length] in Hn; [lia|].
  destruct n as [|n].
  - cbn. destruct j; reflexivity.
  - cbn [firstn skipn app]. destruct j as [|j]; [reflexivity|].
    cbn [nth Nat.eqb]. apply IH. lia.
Qed.

Lemma aset_len {A} (l : list A) i v : 0 <= i < zlen l -> zlen (aset l i v) = zlen l.
Proof.
  intros H. unfold aset, zlen in *. rewrite app_length. cbn [length].
  rewrite firstn_length, skipn_length. lia.
Qed.

Lemma aget_aset (l : list Z) i v j : 0 <= i < zlen l -> 0 <= j ->
  aget (aset l i v) j = if j =? i then v else aget l j.
Proof.
  intros H Hj. unfold aget, nthZ, aset. rewrite nth_upd by (unfold zlen in H; lia).
  destruct (j =? i) eqn:E.
  - apply Z.eqb_eq in E. subst. now rewrite Nat.eqb_refl.
  - apply Z.eqb_neq in E. destruct (Nat.eqb (Z.to_nat j) (Z.to_nat i)) eqn:E'; [|reflexivity].
    apply Nat.eqb_eq in E'. lia.
Qed.

(* the array [v] (with diagonal 0 at index [off]) stores the function [f] *)
Definition repr (off : Z) (v : list Z) (f : Z -> Z) : Prop :=
  forall k, 0 <= off + k < zlen v -> aget v (off + k) = f k.

Definition upd (f : Z -> Z) (k x : Z) : Z -> Z := fun j => if j =? k then x else f j.

Lemma upd_same f k x : upd f k x k = x.
Proof. unfold upd. now rewrite Z.eqb_refl. Qed.
Lemma upd_other f k x j : j <> k -> upd f k x j = f j.
Proof. intros H. unfold upd. apply Z.eqb_neq in H. now rewrite H. Qed.

Lemma repr_upd off v f k x : repr off v f -> 0 <= off + k < zlen v ->
  repr off (aset v (off + k) x) (upd f k x) /\ zlen (aset v (off + k) x) = zlen v.
Proof.
  intros Hr Hk. split; [|now apply aset_len].
  intros j Hj. rewrite aset_len in Hj by assumption.
  rewrite aget_aset by lia. unfold upd.
  destruct (j =? k) eqn:E.
  - apply Z.eqb_eq in E. subst. now rewrite Z.eqb_refl.
  - apply Z.eqb_neq in E. destruct (off + j =? off + k) eqn:E'; [apply Z.eqb_eq in E'; lia|].
    now apply Hr.
Qed.

(* ------------------------------------------------------------------ *)
(** * range(a, b, 2) *)

Lemma range2_unfold a b : range2 a b = map (fun i => a + 2 * Z.of_nat i) (seq 0 (Z.to_nat ((b - a + 1) / 2))).
Proof. reflexivity. Qed.

Lemma map_seq_shift (a : Z) n i0 :
  map (fun i => a + 2 * Z.of_nat i) (seq (S i0) n) = map (fun i => (a + 2) + 2 * Z.of_nat i) (seq i0 n).
Proof.
  revert i0. induction n as [|n IH]; intros i0; [reflexivity|].
  cbn [seq map]. f_equal; [lia|]. apply IH.
Qed.

(* ------------------------------------------------------------------ *)
(** * the characters compared by the two snakes *)

Definition M1 (t1 t2 : str) (x y : Z) : bool := N.eqb (nthZ 0%N t1 x) (nthZ 0%N t2 y).
(* the reverse search, in its own coordinates *)
Definition M2 (t1 t2 : str) (x y : Z) : bool := M1 t1 t2 (zlen t1 - 1 - x) (zlen t2 - 1 - y).

(* ------------------------------------------------------------------ *)
(** * one half of the search, abstractly *)

(* outcome of one iteration of a k-loop: go on with (f, kstart, kend), or an overlap:
   own end point (x, y), the other half's diagonal and its stored x *)
Inductive hres := HCont (f : Z -> Z) (s e : Z) | HHit (x y kk xo : Z).

(* a k-loop: [n] iterations k, k+2, .. of the body [hb] *)
Fixpoint hiter (hb : Z -> (Z -> Z) -> Z -> Z -> hres) (n : nat) (k : Z) (f : Z -> Z) (s e : Z) : hres :=
  match n with
  | O => HCont f s e
  | S n' => match hb k f s e with
            | HCont f' s' e' => hiter hb n' (k + 2) f' s' e'
            | h => h
            end
  end.

Section Half.
  Variables n1 n2 : Z.
  Variable M : Z -> Z -> bool.
  Variables delta off vlen : Z.

  Definition scond (x y : Z) : bool := (x <? n1) && (y <? n2) && M x y.

  Fixpoint snk (fuel : nat) (x y : Z) : Z * Z :=
    match fuel with
    | O => (x, y)
    | S f => if scond x y then snk f (x + 1) (y + 1) else (x, y)
    end.

  Definition snake (x y : Z) : Z * Z := snk (Z.to_nat (n1 - x)) x y.

  Lemma snk_inv (P : Z -> Z -> Prop) :
    (forall x y, P x y -> x < n1 -> y < n2 -> M x y = true -> P (x + 1) (y + 1)) ->
    forall fuel x y, P x y -> P (fst (snk fuel x y)) (snd (snk fuel x y)).
  Proof.
    intros Hs. induction fuel as [|f IH]; intros x y HP; cbn [snk]; [exact HP|].
    destruct (scond x y) eqn:E; [|exact HP].
    unfold scond in E. apply andb_true_iff in E as [E E3]. apply andb_true_iff in E as [E1 E2].
    apply Z.ltb_lt in E1, E2. apply IH. now apply Hs.
  Qed.

  Lemma snk_stop fuel x y : n1 - x <= Z.of_nat fuel ->
    scond (fst (snk fuel x y)) (snd (snk fuel x y)) = false.
  Proof.
    revert x y. induction fuel as [|f IH]; intros x y H; cbn [snk].
    - cbn [fst snd]. unfold scond. destruct (x <? n1) eqn:E; [apply Z.ltb_lt in E; lia|reflexivity].
    - destruct (scond x y) eqn:E; [|exact E]. apply IH. lia.
  Qed.

  Lemma snake_inv (P : Z -> Z -> Prop) :
    (forall x y, P x y -> x < n1 -> y < n2 -> M x y = true -> P (x + 1) (y + 1)) ->
    forall x y, P x y -> P (fst (snake x y)) (snd (snake x y)).
  Proof. intros Hs x y. unfold snake. now apply snk_inv. Qed.

  Lemma snake_stop x y : scond (fst (snake x y)) (snd (snake x y)) = false.
  Proof. unfold snake. apply snk_stop. lia. Qed.

  (* the snake stays on its diagonal and moves forward; after at least one step it is in the grid *)
  Lemma snake_diag x y :
    snd (snake x y) - y = fst (snake x y) - x /\ x <= fst (snake x y) /\
    (x < fst (snake x y) -> fst (snake x y) <= n1 /\ snd (snake x y) <= n2).
  Proof.
    apply (snake_inv (fun x' y' => y' - y = x' - x /\ x <= x' /\ (x < x' -> x' <= n1 /\ y' <= n2))).
    - intros x' y' (H1 & H2 & H3) L1 L2 _. lia.
    - lia.
  Qed.

  (* if the snake moved, its last step was over a match *)
  Lemma snake_last x y : x < fst (snake x y) -> M (fst (snake x y) - 1) (snd (snake x y) - 1) = true.
  Proof.
    assert (P : fst (snake x y) = x \/ M (fst (snake x y) - 1) (snd (snake x y) - 1) = true).
    { apply (snake_inv (fun x' y' => x' = x \/ M (x' - 1) (y' - 1) = true)).
      - intros x' y' _ _ _ Hm. right. now replace (x' + 1 - 1) with x' by lia; replace (y' + 1 - 1) with y' by lia.
      - now left. }
    intros Hlt. destruct P as [P|P]; [lia|exact P].
  Qed.

  (* x = v[k+1] or v[k-1] + 1 *)
  Definition pickx (f : Z -> Z) (d k : Z) : Z :=
    if k =? - d then f (k + 1)
    else if negb (k =? d) then (if f (k - 1) <? f (k + 1) then f (k + 1) else f (k - 1) + 1)
    else f (k - 1) + 1.

  Definition hbody (chk : bool) (g : Z -> Z) (d k : Z) (f : Z -> Z) (s e : Z) : hres :=
    let x0 := pickx f d k in
    let xy := snake x0 (x0 - k) in
    let f' := upd f k (fst xy) in
    if fst xy >? n1 then HCont f' s (e + 2)
    else if snd xy >? n2 then HCont f' (s + 2) e
    else if chk && (0 <=? off + (delta - k)) && (off + (delta - k) <? vlen)
            && negb (g (delta - k) =? -1) && (fst xy + g (delta - k) >=? n1)
         then HHit (fst xy) (snd xy) (delta - k) (g (delta - k))
         else HCont f' s e.

  Definition hphase (chk : bool) (g : Z -> Z) (d : Z) (n : nat) (k : Z) (f : Z -> Z) (s e : Z) : hres :=
    hiter (hbody chk g d) n k f s e.

  (* the array reads of pick_x are in range *)
  Definition pick_ok (d k : Z) : Prop :=
    0 <= off + k - 1 /\ off + k < vlen /\ (off + k + 1 < vlen \/ (k = d /\ k <> - d)).

  Lemma pick_x_refine v f d k : repr off v f -> zlen v = vlen -> pick_ok d k ->
    pick_x v d k (off + k) = Ok (pickx f d k).
  Proof.
    intros Hr Hl (H1 & H2 & H3). unfold pick_x, pickx.
    assert (Hm : py_get v (off + k - 1) = Ok (f (k - 1))).
    { rewrite (py_get_nthZ (-1)) by lia. f_equal. replace (off + k - 1) with (off + (k - 1)) by lia.
      apply Hr. lia. }
    assert (Hp : off + k + 1 < vlen -> py_get v (off + k + 1) = Ok (f (k + 1))).
    { intros Hlt. rewrite (py_get_nthZ (-1)) by lia. f_equal. replace (off + k + 1) with (off + (k + 1)) by lia.
      apply Hr. lia. }
    destruct (k =? - d) eqn:E1.
    - cbn [bind]. apply Z.eqb_eq in E1. apply Hp. lia.
    - destruct (k =? d) eqn:E2; cbn [negb bind].
      + rewrite Hm. reflexivity.
      + apply Z.eqb_neq in E2. rewrite Hm, (Hp ltac:(lia)). cbn [bind].
        destruct (f (k - 1) <? f (k + 1)); reflexivity.
  Qed.
End Half.


(* ------------------------------------------------------------------ *)
(** * the model's loops compute the abstract description *)

Lemma loop_snake1 t1 t2 fuel x y : 0 <= x -> 0 <= y -> (Z.to_nat (zlen t1 - x) < fuel)%nat ->
  loop fuel (snake1_step t1 t2) (x, y) = Ok (snk (zlen t1) (zlen t2) (M1 t1 t2) (Z.to_nat (zlen t1 - x)) x y).
Proof.
  revert x y. induction fuel as [|f IH]; intros x y Hx Hy Hf; [lia|].
  cbn [loop]. unfold snake1_step at 1. cbv zeta.
  destruct (x <? zlen t1) eqn:E1.
  - apply Z.ltb_lt in E1.
    replace (Z.to_nat (zlen t1 - x)) with (S (Z.to_nat (zlen t1 - (x + 1)))) by lia.
    cbn [snk]. unfold scond.
    destruct (x <? zlen t1) eqn:E1'; [|apply Z.ltb_ge in E1'; lia].
    destruct (y <? zlen t2) eqn:E2; cbn [andb]; [|reflexivity].
    apply Z.ltb_lt in E2.
    rewrite (py_get_nthZ 0%N) by lia. cbn [bind]. rewrite (py_get_nthZ 0%N) by lia. cbn [bind].
    fold (M1 t1 t2 x y). destruct (M1 t1 t2 x y); [|reflexivity].
    apply IH; lia.
  - cbn [andb]. apply Z.ltb_ge in E1. replace (Z.to_nat (zlen t1 - x)) with O by lia. reflexivity.
Qed.

Lemma loop_snake2 t1 t2 fuel x y : 0 <= x -> 0 <= y -> (Z.to_nat (zlen t1 - x) < fuel)%nat ->
  loop fuel (snake2_step t1 t2) (x, y) = Ok (snk (zlen t1) (zlen t2) (M2 t1 t2) (Z.to_nat (zlen t1 - x)) x y).
Proof.
  revert x y. induction fuel as [|f IH]; intros x y Hx Hy Hf; [lia|].
  cbn [loop]. unfold snake2_step at 1. cbv zeta.
  destruct (x <? zlen t1) eqn:E1.
  - apply Z.ltb_lt in E1.
    replace (Z.to_nat (zlen t1 - x)) with (S (Z.to_nat (zlen t1 - (x + 1)))) by lia.
    cbn [snk]. unfold scond.
    destruct (x <? zlen t1) eqn:E1'; [|apply Z.ltb_ge in E1'; lia].
    destruct (y <? zlen t2) eqn:E2; cbn [andb]; [|reflexivity].
    apply Z.ltb_lt in E2.
    rewrite (py_get_neg 0%N) by lia. cbn [bind]. rewrite (py_get_neg 0%N) by lia. cbn [bind].
    fold (M1 t1 t2 (zlen t1 - 1 - x) (zlen t2 - 1 - y)). fold (M2 t1 t2 x y).
    destruct (M2 t1 t2 x y); [|reflexivity].
    apply IH; lia.
  - cbn [andb]. apply Z.ltb_ge in E1. replace (Z.to_nat (zlen t1 - x)) with O by lia. reflexivity.
Qed.

Section Refine.
  Variables t1 t2 : str.
  Let n1 := zlen t1.
  Let n2 := zlen t2.
  Let max_d := (n1 + n2 + 1) / 2.
  Let delta := n1 - n2.

  (* front path: the check is made when the total length is odd; on overlap the own point is returned *)
  Lemma k1_body_refine (v2 : list Z) (g : Z -> Z) d k (v : list Z) (f : Z -> Z) s e :
    repr max_d v f -> zlen v = 2 * max_d -> repr max_d v2 g -> zlen v2 = 2 * max_d ->
    pick_ok max_d (2 * max_d) d k -> 0 <= pickx f d k -> 0 <= pickx f d k - k ->
    exists r, k1_body t1 t2 v2 d k (v, s, e) = Ok r /\
      match hbody n1 n2 (M1 t1 t2) delta max_d (2 * max_d) (negb (delta mod 2 =? 0)) g d k f s e with
      | HCont f' s' e' => exists v', r = inl (v', s', e') /\ repr max_d v' f' /\ zlen v' = 2 * max_d
      | HHit x y kk xo => r = inr (x, y)
      end.
  Proof.
    intros Hr Hl Hr2 Hl2 Hp Hx Hy.
    pose proof (zlen_nonneg t1) as Z1. pose proof (zlen_nonneg t2) as Z2. fold n1 in Z1. fold n2 in Z2.
    unfold k1_body. cbv zeta. fold n1 n2. fold max_d. fold delta.
    rewrite (pick_x_refine max_d (2 * max_d) v f d k Hr Hl Hp). cbn [bind].
    set (x0 := pickx f d k) in *.
    unfold n1 at 1. rewrite loop_snake1 by (unfold snake_fuel; fold n1 n2; lia). fold n1 n2. cbn [bind].
    unfold hbody. fold x0. unfold snake.
    destruct (snk n1 n2 (M1 t1 t2) (Z.to_nat (n1 - x0)) x0 (x0 - k)) as [x y] eqn:Es. cbn [fst snd].
    destruct Hp as (P1 & P2 & P3).
    rewrite py_set_aset by lia. cbn [bind].
    destruct (repr_upd max_d v f k x Hr ltac:(lia)) as [Hr' Hl'].
    destruct (x >? n1) eqn:E1; [eexists; split; [reflexivity|]; eexists; repeat split; [exact Hr'|lia]|].
    destruct (y >? n2) eqn:E2; [eexists; split; [reflexivity|]; eexists; repeat split; [exact Hr'|lia]|].
    set (chk := negb (delta mod 2 =? 0)).
    destruct chk; cbn [andb]; [|eexists; split; [reflexivity|]; eexists; repeat split; [exact Hr'|lia]].
    replace (max_d + delta - k) with (max_d + (delta - k)) by lia.
    destruct (max_d + (delta - k) >=? 0) eqn:E3.
    2:{ destruct (0 <=? max_d + (delta - k)) eqn:E3'; [bz; lia|].
        cbn [andb]. eexists; split; [reflexivity|]; eexists; repeat split; [exact Hr'|lia]. }
    bz.
    destruct (0 <=? max_d + (delta - k)) eqn:E3'; [|apply Z.leb_gt in E3'; lia].
    destruct (max_d + (delta - k) <? 2 * max_d) eqn:E4; cbn [andb];
      [|eexists; split; [reflexivity|]; eexists; repeat split; [exact Hr'|lia]].
    bz.
    rewrite (py_get_nthZ (-1)) by lia. cbn [bind]. fold (aget v2 (max_d + (delta - k))).
    rewrite (Hr2 (delta - k)) by lia.
    destruct (g (delta - k) =? -1) eqn:E5; cbn [negb andb];
      [eexists; split; [reflexivity|]; eexists; repeat split; [exact Hr'|lia]|].
    destruct (x >=? n1 - g (delta - k)) eqn:E6.
    - destruct (x + g (delta - k) >=? n1) eqn:E7; [|bz; lia].
      eexists; split; reflexivity.
    - destruct (x + g (delta - k) >=? n1) eqn:E7; [bz; lia|].
      eexists; split; [reflexivity|]; eexists; repeat split; [exact Hr'|lia].
  Qed.

  (* reverse path: the check is made when the total length is even; on overlap the OTHER half's
     point is returned *)
  Lemma k2_body_refine (v1 : list Z) (g : Z -> Z) d k (v : list Z) (f : Z -> Z) s e :
    repr max_d v f -> zlen v = 2 * max_d -> repr max_d v1 g -> zlen v1 = 2 * max_d ->
    pick_ok max_d (2 * max_d) d k -> 0 <= pickx f d k -> 0 <= pickx f d k - k ->
    exists r, k2_body t1 t2 v1 d k (v, s, e) = Ok r /\
      match hbody n1 n2 (M2 t1 t2) delta max_d (2 * max_d) (delta mod 2 =? 0) g d k f s e with
      | HCont f' s' e' => exists v', r = inl (v', s', e') /\ repr max_d v' f' /\ zlen v' = 2 * max_d
      | HHit x y kk xo => r = inr (xo, xo - kk)
      end.
  Proof.
    intros Hr Hl Hr2 Hl2 Hp Hx Hy.
    pose proof (zlen_nonneg t1) as Z1. pose proof (zlen_nonneg t2) as Z2. fold n1 in Z1. fold n2 in Z2.
    unfold k2_body. cbv zeta. fold n1 n2. fold max_d. fold delta.
    rewrite (pick_x_refine max_d (2 * max_d) v f d k Hr Hl Hp). cbn [bind].
    set (x0 := pickx f d k) in *.
    unfold n1 at 1. rewrite loop_snake2 by (unfold snake_fuel; fold n1 n2; lia). fold n1 n2. cbn [bind].
    unfold hbody. fold x0. unfold snake.
    destruct (snk n1 n2 (M2 t1 t2) (Z.to_nat (n1 - x0)) x0 (x0 - k)) as [x y] eqn:Es. cbn [fst snd].
    destruct Hp as (P1 & P2 & P3).
    rewrite py_set_aset by lia. cbn [bind].
    destruct (repr_upd max_d v f k x Hr ltac:(lia)) as [Hr' Hl'].
    destruct (x >? n1) eqn:E1; [eexists; split; [reflexivity|]; eexists; repeat split; [exact Hr'|lia]|].
    destruct (y >? n2) eqn:E2; [eexists; split; [reflexivity|]; eexists; repeat split; [exact Hr'|lia]|].
    rewrite negb_involutive.
    set (chk := (delta mod 2 =? 0)).
    destruct chk; cbn [andb]; [|eexists; split; [reflexivity|]; eexists; repeat split; [exact Hr'|lia]].
    replace (max_d + delta - k) with (max_d + (delta - k)) by lia.
    destruct (max_d + (delta - k) >=? 0) eqn:E3.
    2:{ destruct (0 <=? max_d + (delta - k)) eqn:E3'; [bz; lia|].
        cbn [andb]. eexists; split; [reflexivity|]; eexists; repeat split; [exact Hr'|lia]. }
    bz.
    destruct (0 <=? max_d + (delta - k)) eqn:E3'; [|apply Z.leb_gt in E3'; lia].
    destruct (max_d + (delta - k) <? 2 * max_d) eqn:E4; cbn [andb];
      [|eexists; split; [reflexivity|]; eexists; repeat split; [exact Hr'|lia]].
    bz.
    rewrite (py_get_nthZ (-1)) by lia. cbn [bind]. fold (aget v1 (max_d + (delta - k))).
    rewrite (Hr2 (delta - k)) by lia.
    destruct (g (delta - k) =? -1) eqn:E5; cbn [negb andb];
      [eexists; split; [reflexivity|]; eexists; repeat split; [exact Hr'|lia]|].
    destruct (g (delta - k) >=? n1 - x) eqn:E6.
    - destruct (x + g (delta - k) >=? n1) eqn:E7; [|bz; lia].
      eexists; split; [|reflexivity]. do 3 f_equal. lia.
    - destruct (x + g (delta - k) >=? n1) eqn:E7; [bz; lia|].
      eexists; split; [reflexivity|]; eexists; repeat split; [exact Hr'|lia].
  Qed.
End Refine.

(* a for-loop over range(a, b, 2) whose body computes [hb] computes [hiter hb] *)
Lemma phase_refine {R} (body : Z -> list Z * Z * Z -> result (list Z * Z * Z + R))
    (hb : Z -> (Z -> Z) -> Z -> Z -> hres) (ret : Z -> Z -> Z -> Z -> R) (off vlen : Z)
    (Inv : Z -> (Z -> Z) -> Z -> Z -> Prop) :
  (forall k v f s e, Inv k f s e -> repr off v f -> zlen v = vlen ->
     exists r, body k (v, s, e) = Ok r /\
       match hb k f s e with
       | HCont f' s' e' => exists v', r = inl (v', s', e') /\ repr off v' f' /\ zlen v' = vlen
       | HHit x y kk xo => r = inr (ret x y kk xo)
       end) ->
  (forall k f s e f' s' e', Inv k f s e -> hb k f s e = HCont f' s' e' -> Inv (k + 2) f' s' e') ->
  forall n a v f s e, Inv a f s e -> repr off v f -> zlen v = vlen ->
    exists r, for_loop (map (fun i => a + 2 * Z.of_nat i) (seq 0 n)) body (v, s, e) = Ok r /\
      match hiter hb n a f s e with
      | HCont f' s' e' => exists v', r = inl (v', s', e') /\ repr off v' f' /\ zlen v' = vlen
      | HHit x y kk xo => r = inr (ret x y kk xo)
      end.
Proof.
  intros Hb Hi. induction n as [|n IH]; intros a v f s e HI Hr Hl.
  - cbn. eexists; split; [reflexivity|]. now exists v.
  - cbn [seq map for_loop hiter]. replace (a + 2 * Z.of_nat 0) with a by lia.
    destruct (Hb a v f s e HI Hr Hl) as (r & Er & Hm). rewrite Er.
    destruct (hb a f s e) as [f' s' e'|x y kk xo] eqn:Eh.
    + destruct Hm as (v' & -> & Hr' & Hl').
      rewrite map_seq_shift. apply IH; [|assumption|assumption].
      eapply Hi; eassumption.
    + subst r. eexists; split; reflexivity.
Qed.

(* the same, where the body is only known to compute [hb] on the diagonals below [stop] *)
Lemma phase_refine_b {R} (body : Z -> list Z * Z * Z -> result (list Z * Z * Z + R))
    (hb : Z -> (Z -> Z) -> Z -> Z -> hres) (ret : Z -> Z -> Z -> Z -> R) (off vlen stop : Z)
    (Inv : Z -> (Z -> Z) -> Z -> Z -> Prop) :
  (forall k v f s e, Inv k f s e -> k < stop -> repr off v f -> zlen v = vlen ->
     exists r, body k (v, s, e) = Ok r /\
       match hb k f s e with
       | HCont f' s' e' => exists v', r = inl (v', s', e') /\ repr off v' f' /\ zlen v' = vlen
       | HHit x y kk xo => r = inr (ret x y kk xo)
       end) ->
  (forall k f s e f' s' e', Inv k f s e -> k < stop -> hb k f s e = HCont f' s' e' -> Inv (k + 2) f' s' e') ->
  forall n a v f s e, Inv a f s e -> a + 2 * Z.of_nat n <= stop + 1 -> repr off v f -> zlen v = vlen ->
    exists r, for_loop (map (fun i => a + 2 * Z.of_nat i) (seq 0 n)) body (v, s, e) = Ok r /\
      match hiter hb n a f s e with
      | HCont f' s' e' => exists v', r = inl (v', s', e') /\ repr off v' f' /\ zlen v' = vlen
      | HHit x y kk xo => r = inr (ret x y kk xo)
      end.
Proof.
  intros Hb Hi. induction n as [|n IH]; intros a v f s e HI Hs Hr Hl.
  - cbn. eexists; split; [reflexivity|]. now exists v.
  - cbn [seq map for_loop hiter]. replace (a + 2 * Z.of_nat 0) with a by lia.
    assert (Ha : a < stop) by lia.
    destruct (Hb a v f s e HI Ha Hr Hl) as (r & Er & Hm). rewrite Er.
    destruct (hb a f s e) as [f' s' e'|x y kk xo] eqn:Eh.
    + destruct Hm as (v' & -> & Hr' & Hl').
      rewrite map_seq_shift. apply IH; [|lia|assumption|assumption].
      eapply Hi; eassumption.
    + subst r. eexists; split; reflexivity.
Qed.
