(* The round trip of the text format for actions whose LAST verbatim field is read by a variadic parser handler
   (def _handle_insert_namespace(self, prefix, uri, *more): ",".join((uri,) + more)): that field may hold commas
   outside quotes and braces -- a namespace URI such as tag:example.org,2005:x -- as long as the pieces between
   them are well-formed verbatim fields themselves (no white space next to the commas, which no URI has).
   Extends XV.TextFormatProofs; the generic theorem of that file is the special case of one piece. *)
From Coq Require Import List NArith ZArith Bool Lia.
Require Import XV.Str XV.StrProofs XV.Json XV.JsonProofs XV.TextFormat XV.TextFormatProofs.
Import ListNotations.
Local Open Scope N_scope.

(* a verbatim value made of well-formed pieces joined by commas *)
Definition rest_ok (s : str) : Prop :=
  exists qs, qs <> [] /\ s = join [44] qs /\ Forall rawq_ok qs.

Definition is_rest (T : text_tables) (fe : fmt_entry) : bool :=
  match find_parse T (fe_keyword fe) with Some pe => pe_rest pe | None => false end.

Definition field_ok_rest (sig : list str) (vals : list pyval) (f : str * enc) : Prop :=
  match index_of (fst f) sig with
  | Some i => match nth_error vals i with
              | Some (PStr s) => snd f = ERaw /\ rest_ok s
              | _ => False
              end
  | None => False
  end.

(* the action's formatter entry is read by a variadic handler; all fields but the last are well formed as before,
   the last one is a verbatim field made of comma-separated pieces *)
Definition wf_action_rest (T : text_tables) (a : gaction) : Prop :=
  match find_fmt T (ga_ctor a), sig_fields T (ga_ctor a) with
  | Some fe, Some sig =>
      length (ga_fields a) = length sig /\ is_rest T fe = true /\
      exists init lastf, fe_fields fe = init ++ [lastf] /\
        Forall (field_ok sig (ga_fields a)) init /\ field_ok_rest sig (ga_fields a) lastf
  | _, _ => False
  end.

Lemma rawq_rest s : rawq_ok s -> rest_ok s.
Proof. intros H. exists [s]. repeat split; [discriminate|constructor; [exact H|constructor]]. Qed.

(* ---- the splitter on comma-joined neutral pieces ---- *)

Lemma split_join44 qs : forall q part parts,
  blankb part = true -> neutral q -> Forall neutral qs ->
  split_aux (join [44] (q :: qs)) part false false false parts
  = rev parts ++ (rev part ++ q) :: qs.
Proof.
  induction qs as [|q' qs IH]; intros q part parts Hb Hq Hqs.
  - cbn [join]. rewrite <- (app_nil_r q) at 1. rewrite (Hq _ _ _ Hb).
    cbn [split_aux rev]. rewrite rev_app_distr, rev_involutive. reflexivity.
  - inversion Hqs as [|? ? Hq' Hqs']; subst.
    rewrite join_cons2. rewrite (Hq _ _ _ Hb). cbn [app split_aux].
    change (44 =? 44) with true. cbv match.
    rewrite (IH q' [] _ eq_refl Hq' Hqs').
    cbn [rev app]. rewrite rev_app_distr, rev_involutive, <- app_assoc. reflexivity.
Qed.

(* fields p :: ps (neutral, joined by ", "), then ", " and a tail that the splitter reads on its own *)
Lemma split_join_tail ps : forall p part parts tail,
  blankb part = true -> neutral p -> Forall neutral ps ->
  split_aux (join [44; 32] (p :: ps) ++ [44; 32] ++ tail) part false false false parts
  = split_aux tail [32] false false false (rev (map (cons 32) ps) ++ (rev part ++ p) :: parts).
Proof.
  induction ps as [|q ps IH]; intros p part parts tail Hb Hp Hps.
  - cbn [join map rev app]. rewrite (Hp _ _ _ Hb). cbn [app split_aux].
    change (44 =? 44) with true. change (32 =? 44) with false. change (32 =? 34) with false.
    change (32 =? 123) with false. cbn [andb]. cbv match.
    rewrite rev_app_distr, rev_involutive. reflexivity.
  - inversion Hps as [|? ? Hq Hps']; subst.
    rewrite join_cons2. rewrite <- !app_assoc. rewrite (Hp _ _ _ Hb). cbn [app split_aux].
    change (44 =? 44) with true. change (32 =? 44) with false. change (32 =? 34) with false.
    change (32 =? 123) with false. cbn [andb]. cbv match.
    change (44 :: 32 :: tail) with ([44; 32] ++ tail). rewrite (IH q [32] _ tail eq_refl Hq Hps').
    cbn [map rev app]. rewrite rev_app_distr, rev_involutive. rewrite <- !app_assoc. reflexivity.
Qed.

Lemma merge_rest_app ps0 qs : qs <> [] ->
  merge_rest (S (length ps0)) (ps0 ++ qs) = ps0 ++ [join [44] qs].
Proof.
  intros Hq. unfold merge_rest.
  assert (L : (S (length ps0) <= length (ps0 ++ qs))%nat).
  { rewrite app_length. destruct qs; [contradiction|cbn [length]; lia]. }
  rewrite (proj2 (Nat.ltb_ge _ _) L).
  rewrite firstn_app, Nat.sub_diag, firstn_all. cbn [firstn]. rewrite app_nil_r.
  rewrite skipn_app, Nat.sub_diag, skipn_all. reflexivity.
Qed.

Lemma no_lb_join44 qs : Forall no_lb qs -> no_lb (join [44] qs).
Proof. intros H. apply no_lb_join; [repeat constructor|exact H]. Qed.

Section Rest.
Variable T : text_tables.
Hypothesis Hok : tables_ok T = true.

Lemma make_action_format_rest a line :
  wf_action_rest T a -> format_action T a = Ok line ->
  make_action T line = Ok a /\ bracketed line /\ no_lb line.
Proof.
  intros Hwf Hf.
  destruct (tables_ok_inv T Hok) as (_ & Hpre & Hpost & Hsep & Hentries).
  unfold wf_action_rest in Hwf. unfold format_action in Hf.
  destruct (find_fmt T (ga_ctor a)) as [fe|] eqn:Efe; [|contradiction].
  destruct (sig_fields T (ga_ctor a)) as [sig|] eqn:Esig; [|contradiction].
  destruct Hwf as (Hlen & Hrest & init & lastf & Efields & Hinit & Hlast).
  destruct (mapM _ (fe_fields fe)) as [parts|e] eqn:Em; cbn [bind] in Hf; [|discriminate].
  injection Hf as <-. rewrite Hpre, Hpost, Hsep.
  apply mapM_inv in Em. rewrite Efields in Em.
  apply Forall2_app_inv_l in Em as (parts0 & plast & Em0 & Em1 & ->).
  inversion Em1 as [|? pl ? ? Hpl Hnil]; subst. inversion Hnil; subst. clear Em1 Hnil.
  (* the table facts for this entry *)
  pose proof (find_some _ _ Efe) as [Hin Hctor]. apply str_eqb_true in Hctor.
  pose proof (Hentries fe Hin) as He. unfold fmt_entry_ok in He.
  apply andb_true_iff in He as [Hkw He].
  unfold is_rest in Hrest.
  destruct (find_parse T (fe_keyword fe)) as [pe|] eqn:Epe; [|discriminate].
  rewrite Hctor, Esig in He.
  repeat (apply andb_true_iff in He as [He ?]).
  match goal with H : args_ok _ _ _ _ = true |- _ => rename H into Hargs end.
  match goal with H : Nat.eqb (pe_nparams pe) _ = true |- _ => apply Nat.eqb_eq in H; rename H into Hnp end.
  match goal with H : Nat.eqb (length (pe_args pe)) _ = true |- _ => apply Nat.eqb_eq in H; rename H into Hna end.
  apply str_eqb_true in He. rename He into Hpector.
  (* the leading parts are as before *)
  assert (Hslots0 : Forall2 (fun f p => exists i v, index_of (fst f) sig = Some i /\ nth_error (ga_fields a) i = Some v /\
                                wf_val (snd f) v /\ encode (snd f) v = Ok p) init parts0).
  { eapply Forall2_impl; [|apply (Forall2_Forall_l _ _ _ _ Hinit Em0)].
    intros f p [Hfo Hb]. unfold field_ok in Hfo. unfold field_value in Hb. rewrite Esig in Hb.
    destruct (index_of (fst f) sig) as [i|] eqn:Ei; [|contradiction].
    destruct (nth_error (ga_fields a) i) as [v|] eqn:Ev; [|contradiction].
    cbn [bind] in Hb. exists i, v. repeat split; assumption. }
  assert (Hparts0 : Forall part_ok parts0).
  { eapply Forall2_r; [|exact Hslots0].
    intros f p (i & v & _ & _ & Hw & Hencd). apply (encode_ok _ _ _ Hw Hencd). }
  (* the last one *)
  unfold field_ok_rest in Hlast. unfold field_value in Hpl. rewrite Esig in Hpl.
  destruct (index_of (fst lastf) sig) as [il|] eqn:Eil; [|contradiction].
  destruct (nth_error (ga_fields a) il) as [vl|] eqn:Evl; [|contradiction].
  destruct vl as [sl| |]; try contradiction.
  destruct Hlast as (Elast & qs & Hqne & -> & Hqs).
  cbn [bind] in Hpl. rewrite Elast in Hpl. cbn [encode] in Hpl. injection Hpl as <-.
  assert (Hqparts : Forall part_ok qs).
  { eapply Forall_impl; [|exact Hqs]. intros q (Hb & Hl & Hs). split; [apply bal_neutral, Hb|exact Hs|exact Hl]. }
  pose proof (kw_ok_part _ Hkw) as Hkwp.
  destruct qs as [|q0 qs]; [contradiction|].
  inversion Hqparts as [|? ? Hq0 Hqs']; subst.
  assert (Hlp : S (length parts0) = pe_nparams pe).
  { rewrite Hnp, Efields, app_length. cbn [length]. rewrite (Forall2_len _ _ _ Em0). lia. }
  (* decoding: every field, the last one from the joined value *)
  assert (Hdec : Forall2 (fun f p => exists i v, index_of (fst f) sig = Some i /\
                                       nth_error (ga_fields a) i = Some v /\
                                       decode (snd f) p = Ok v) (fe_fields fe) (parts0 ++ [join [44] (q0 :: qs)])).
  { rewrite Efields. apply Forall2_app.
    - eapply Forall2_impl; [|exact Hslots0].
      intros f p (i & v & Hi & Hv & Hw & Hencd). exists i, v.
      repeat split; try assumption. apply (encode_ok _ _ _ Hw Hencd).
    - constructor; [|constructor]. exists il, (PStr (join [44] (q0 :: qs))).
      repeat split; try assumption. rewrite Elast. reflexivity. }
  repeat match goal with |- context [match ?l with [] => ?k | _ :: _ => ?k ++ ?sep ++ join ?sep2 ?l end] =>
    change (match l with [] => k | _ :: _ => k ++ sep ++ join sep2 l end) with (join sep2 (k :: l)) end.
  match goal with |- context [[91] ++ ?x] => change ([91] ++ x) with (91 :: x) end.
  split; [|split].
  - assert (Esp : map strip (split_aux (join [44; 32] (fe_keyword fe :: parts0 ++ [join [44] (q0 :: qs)])) [] false false false [])
                  = fe_keyword fe :: parts0 ++ q0 :: qs).
    { replace (join [44; 32] (fe_keyword fe :: parts0 ++ [join [44] (q0 :: qs)]))
        with (join [44; 32] (fe_keyword fe :: parts0) ++ [44; 32] ++ join [44] (q0 :: qs)).
      2:{ clear. generalize (fe_keyword fe) as k. induction parts0 as [|p ps IH]; intros k.
          - cbn [app]. rewrite join_cons2. reflexivity.
          - cbn [app]. rewrite !join_cons2. rewrite <- !app_assoc. f_equal. f_equal. apply IH. }
      rewrite split_join_tail;
        [|reflexivity|apply Hkwp|eapply Forall_impl; [|exact Hparts0]; intros p Hp; apply Hp].
      rewrite split_join44;
        [|reflexivity|apply Hq0|eapply Forall_impl; [|exact Hqs']; intros p Hp; apply Hp].
      cbn [rev app]. rewrite rev_app_distr, rev_involutive. cbn [rev app].
      cbn [map]. rewrite (po_strip _ Hkwp). f_equal. rewrite map_app. f_equal.
      + rewrite map_map. clear -Hparts0. induction Hparts0 as [|p ps Hp _ IH]; [reflexivity|].
        cbn [map]. rewrite IH. rewrite strip_space_cons by reflexivity.
        rewrite (po_strip _ Hp). reflexivity.
      + cbn [map]. rewrite strip_space_cons by reflexivity. rewrite (po_strip _ Hq0). f_equal.
        clear -Hqs'. induction Hqs' as [|p ps Hp _ IH]; [reflexivity|].
        cbn [map]. rewrite IH, (po_strip _ Hp). reflexivity. }
    set (J := join [44; 32] (fe_keyword fe :: parts0 ++ [join [44] (q0 :: qs)])) in *.
    unfold make_action. cbn [tl]. rewrite removelast_last. unfold split_params.
    rewrite Esp. rewrite Epe. rewrite Hrest.
    rewrite <- Hlp. rewrite merge_rest_app by discriminate.
    replace (length (parts0 ++ [join [44] (q0 :: qs)])) with (S (length parts0))
      by (rewrite app_length; cbn [length]; lia).
    rewrite Nat.eqb_refl. cbn [negb].
    rewrite (args_decode _ _ _ _ Hdec (pe_args pe) 0%nat Hargs) by (cbn [Nat.add]; lia).
    cbn [bind skipn]. rewrite Hpector. destruct a; reflexivity.
  - exists (join [44; 32] (fe_keyword fe :: parts0 ++ [join [44] (q0 :: qs)])). reflexivity.
  - constructor; [reflexivity|]. apply Forall_app. split; [|repeat constructor].
    apply no_lb_join; [repeat constructor|].
    constructor; [apply Hkwp|]. apply Forall_app. split.
    + eapply Forall_impl; [|exact Hparts0]. intros p Hp. apply Hp.
    + constructor; [|constructor]. apply no_lb_join44.
      eapply Forall_impl; [|exact Hqparts]. intros p Hp. apply Hp.
Qed.

Theorem parse_format_rest_aux acts text :
  Forall (fun a => wf_action T a \/ wf_action_rest T a) acts -> format T acts = Ok text ->
  parse T text = Ok acts /\ length (splitlines text) = length acts.
Proof.
  intros Hwf Hf.
  destruct (tables_ok_inv T Hok) as (Hls & _).
  unfold format in Hf.
  destruct (mapM (format_action T) acts) as [lines|e] eqn:Em; cbn [bind] in Hf; [|discriminate].
  injection Hf as <-. rewrite Hls.
  apply mapM_inv in Em.
  pose proof (Forall2_Forall_l _ _ _ _ Hwf Em) as HF.
  assert (HG : Forall2 (fun a l => make_action T l = Ok a /\ bracketed l /\ no_lb l) acts lines).
  { eapply Forall2_impl; [|exact HF]. intros a l [[Hw|Hw] Hl].
    - apply (make_action_format T Hok); assumption.
    - apply make_action_format_rest; assumption. }
  assert (Hsl : splitlines (join [10] lines) = lines).
  { apply splitlines_join. eapply Forall2_r; [|exact HG].
    intros a l (_ & [body ->] & Hn). split; [discriminate|exact Hn]. }
  unfold parse. rewrite Hsl. split.
  - apply (parse_lines_ok T). eapply Forall2_impl; [|exact HG]. intros a l (H1 & H2 & _). split; assumption.
  - symmetry. apply (Forall2_len _ _ _ HG).
Qed.

End Rest.

Theorem parse_format_rest : forall T acts text,
  tables_ok T = true -> Forall (fun a => wf_action T a \/ wf_action_rest T a) acts ->
  format T acts = Ok text ->
  parse T text = Ok acts /\ length (splitlines text) = length acts.
Proof. intros T acts text Hok. apply parse_format_rest_aux. exact Hok. Qed.
