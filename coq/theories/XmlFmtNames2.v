(* XmlFmtNames2 -- whole scripts: the result tree of XMLFormatter.format lies in the fragment the printing model
   (XV.SerializeDoc) reads back, hence the printed string parses (continues XmlFmtNames).  No axioms. *)
From Coq Require Import List NArith ZArith Bool Arith Lia.
Import ListNotations.
Require Import XV.Str XV.Json XV.TextFormat XV.Forest XV.Matcher XV.Differ XV.Spec XV.Path XV.WF XV.ForestProofs XV.TreeProofs
               XV.AttrProofs XV.PathProofs XV.PatcherProofs XV.Render XV.XmlFmt XV.Projections
               XV.XmlFmtProofs0 XV.XmlFmtProofs1 XV.XmlFmtProofs2 XV.XmlFmtProofsR2 XV.XmlFmtProofs3 XV.XmlFmtProofs4 XV.XmlFmtProofs5
               XV.XmlFmtProofs6 XV.XmlFmtProofs7 XV.XmlFmtProofs8 XV.XmlFmtProofs9 XV.XmlFmtProofsB XV.XmlFmtProofsC XV.XmlFmtNames.
Require XV.Placeholder XV.PlaceholderUndo XV.PlaceholderProofs XV.Serialize XV.SerializeProofs XV.SerializeDoc XV.SerializeDocProofs.
Require XV.DMP XV.DMPBase.
Local Open Scope nat_scope.

(* the names an identity-level action brings: plain XML names *)
Definition iact_names (a : iact) : Prop :=
  match a with
  | IInsert _ tag _ _ | IRename _ tag => Serialize.plain_name tag = true
  | IUpdAttr _ k _ | IInsAttr _ k _ => Serialize.plain_name k = true
  | IRenAttr _ _ k' => Serialize.plain_name k' = true
  | _ => True
  end.

Section Total.
Variable c : cfg.
Variable o : oracle.
Variable rootns : list (option str * str).
Variable pe : penv.
Variable root : id.

Lemma iact_names_dact f a D : dact_of pe root f a = FOk D -> iact_names a -> act_names D.
Proof. destruct a; cbn [dact_of iact_names act_names]; intros H Hn; inversion H; subst; cbn [act_names]; auto. Qed.

Lemma handle_all_names script : forall f st gs st',
  render_script pe root f script = Some gs -> Forall iact_names script -> wn (fs_tree st) ->
  handle_all c o rootns st gs = FOk st' -> wn (fs_tree st').
Proof.
  induction script as [|a r IH]; intros f st gs st' Hren Hn HW HA.
  - cbn [render_script] in Hren. inversion Hren; subst gs. cbn [handle_all] in HA. inversion HA; subst. exact HW.
  - cbn [render_script] in Hren. destruct (spec_apply root f a) as [f1|] eqn:Hs; [|discriminate].
    destruct (render_script pe root f1 r) as [gs'|] eqn:Hr; [|discriminate]. cbn [option_map] in Hren. inversion Hren; subst gs.
    apply Forall_cons_iff in Hn as [Hn1 Hnr]. cbn [handle_all] in HA.
    rewrite handle_action_decode, decode_render in HA.
    apply fbind_ok in HA as (st1 & H1 & HA). apply fbind_ok in H1 as (D & ED & H1).
    apply (IH f1 st1 gs' st' Hr Hnr); [|exact HA].
    apply (step_names c o rootns st D st1 HW (iact_names_dact f a D ED Hn1) H1).
Qed.

(* format_total_clean with the names track: the result lies in the printing fragment *)
Theorem format_total_names L script gs fT :
  wf_forest L root -> (forall m, desc L root m -> is_comment (ltag (flab L m)) = false) ->
  let W := remove_comments (doc_tree L root) in
  PlaceholderUndo.npua W = true -> clean_tags W -> nodiff W -> wclean W -> wn W ->
  run_spec root L script = Some fT -> render_script pe root L script = Some gs ->
  fscript_ok rootns pe root [(Some DIFF_PREFIX, DIFF_NS)] L script ->
  Forall names_plain script -> Forall iact_plain script -> Forall iact_names script ->
  run_ok c o rootns (FS W ph_init [(Some DIFF_PREFIX, DIFF_NS)]) gs ->
  exists T, xml_format c o rootns ph_init gs W = FOk T /\ out_clean T = true /\ SerializeDoc.dnode_ok T = true.
Proof.
  intros Hwf HC W HP HCl HN HWc HWn Hrun Hren Hok Hnp Hip Hin Hro.
  set (d0 := dt_of (S (fnext L)) L root).
  assert (HF : fin L root (S (fnext L))) by (eapply fin_mono; [apply (fin_root L root Hwf)|lia]).
  assert (E0 : erase d0 = W) by (apply (erase_dt_of L _ root HF HC)).
  destruct (rel_init (ws_text c) L _ root HF HC ltac:(fold d0; rewrite E0; exact HN) ltac:(fold d0; rewrite E0; exact HP)) as [HR0 Ha0].
  fold d0 in HR0, Ha0.
  destruct (total_script c o rootns pe root script L (FS W ph_init [(Some DIFF_PREFIX, DIFF_NS)]) d0 gs fT
              Hwf E0 HR0 eq_refl Ha0 HWc tinv_init Hrun Hren Hok Hnp Hip Hro) as (st' & E & Cn).
  pose proof (handle_all_names script L (FS W ph_init [(Some DIFF_PREFIX, DIFF_NS)]) gs st' Hren Hin HWn E) as Wn'.
  destruct (handle_all_ph c o rootns gs (FS W ph_init [(Some DIFF_PREFIX, DIFF_NS)]) st' tinv_init Hro E) as [HS _].
  set (S := fs_ph st') in *.
  assert (HW : winv S W).
  { split; [apply npua_run_tree, HP|exact HCl| |].
    - unfold W, doc_tree. cbn [to_tree]. rewrite remove_comments_unfold.
      + cbn [xtail]. rewrite (wf_root_tail _ _ Hwf). reflexivity.
      + apply Forall_forall. intros t Ht. apply in_map_iff in Ht as (m & <- & Hm). rewrite to_tree_label. apply HC, desc_child, Hm.
    - pose proof (nodiff_unmarked W HN) as HU. destruct W as [wt wa wx wl wk]. inversion HU as [? ? ? ? ? Hx _ _]; subst.
      unfold is_inserted, ahas. cbn [xattrs]. now rewrite Hx. }
  destruct (handle_all_reject c o rootns S gs HS (FS W ph_init [(Some DIFF_PREFIX, DIFF_NS)]) st' HW tinv_init Hro E (sext_refl _)) as (I & _).
  destruct (finalize_clean S HS (fs_tree st') I Cn) as (T & F & O).
  exists T. unfold xml_format. rewrite E. cbn [fbind]. split; [exact F|]. split; [exact O|].
  apply (finalize_names S HS (fs_tree st') T I Wn' F).
Qed.

(* ... and so the string XMLFormatter.render prints for it (pretty_print = False) parses back to it *)
Theorem format_prints_wellformed L script gs fT (P : str) :
  SerializeProofs.P_ok P ->
  wf_forest L root -> (forall m, desc L root m -> is_comment (ltag (flab L m)) = false) ->
  let W := remove_comments (doc_tree L root) in
  PlaceholderUndo.npua W = true -> clean_tags W -> nodiff W -> wclean W -> wn W ->
  run_spec root L script = Some fT -> render_script pe root L script = Some gs ->
  fscript_ok rootns pe root [(Some DIFF_PREFIX, DIFF_NS)] L script ->
  Forall names_plain script -> Forall iact_plain script -> Forall iact_names script ->
  run_ok c o rootns (FS W ph_init [(Some DIFF_PREFIX, DIFF_NS)]) gs ->
  exists T, xml_format c o rootns ph_init gs W = FOk T /\
            Serialize.parse P (Serialize.pneed T) (SerializeDoc.render P T) = Some (SerializeProofs.nk T).
Proof.
  intros HP Hwf HC W H1 H2 H3 H4 H5 H6 H7 H8 H9 H10 H11 H12.
  destruct (format_total_names L script gs fT Hwf HC H1 H2 H3 H4 H5 H6 H7 H8 H9 H10 H11 H12) as (T & E & _ & D).
  exists T. split; [exact E|]. apply SerializeDocProofs.render_parse; [exact HP|exact D|apply le_n].
Qed.
End Total.
