(* The two readings of the XML formatter's OUTPUT tree (properties C09, C10),
   written from the property text -- independent of the formatter's code.
   Definitions only; proofs in XmlFmtProofs*.v.

   The output tree is a [Placeholder.xtree]: Clark names, attributes as stored,
   text : option str, tail : str.  Markup vocabulary (DIFF = the diff namespace):
     elements   {DIFF}insert {DIFF}delete {DIFF}replace        -- text wrappers
     attributes {DIFF}insert {DIFF}delete                      -- whole element inserted / deleted
                {DIFF}rename = old tag
                {DIFF}add-attr = "n1;n2"  {DIFF}delete-attr = "n1;n2"
                {DIFF}rename-attr = "old:new;.."  {DIFF}update-attr = "name:oldvalue;.."
                {DIFF}insert-formatting {DIFF}delete-formatting  -- a formatting element (not its content) came / went
                old-text (on {DIFF}replace)                     -- the text that was replaced

   [accept] (C09): drop every element marked deleted TOGETHER WITH THE TEXT REGION THAT
   FOLLOWS IT (its tail and the wrappers up to the next element -- the edit script's
   DeleteNode/MoveNode carry the tail with the node), drop every diff:delete wrapper,
   unwrap diff:insert / diff:replace wrappers, strip diff: attributes.
   [reject] (C10): drop every element marked inserted together with the text region that
   follows it, drop diff:insert wrappers, restore diff:delete wrappers and old-text,
   restore the old tag from diff:rename and old attribute names and values from the
   diff:*-attr annotations; the value of a deleted attribute is not recorded: it is
   restored as [WILD], which [xequiv_r] lets stand for any value.
   SCOPE: these are the EXACT readings, which the properties claim when no text tags are
   configured.  The *-formatting marks and marked placeholder elements exist only inside
   text tags, where C09/C10 speak of the flattened content only; that reading is implemented
   by the oracle in harness/xmlfmt_corr.py (project/stream) and is not formalised here.
   THE RULE USED THERE FOR "the flattened content of every text tag" (accepted reading):
     - an element that goes takes the text region after it along iff its parent is NOT a text
       tag ON THE SIDE THE ELEMENT COMES FROM: accept drops an element marked deleted together
       with its tail region iff the parent's OLD tag (diff:rename, else its tag) is not a text
       tag; reject drops an element marked inserted together with its tail region iff the
       parent's NEW tag is not a text tag.  Inside a flattened text run an element is one
       character of the run and the text after it is not part of it;
     - deleted-formatting (accept) / inserted-formatting (reject) elements are unwrapped;
     - a text tag (new tag for accept, old tag for reject) is compared by its flattened content:
       characters and non-formatting child elements (as atoms) in order, formatting element
       boundaries erased; everything else is compared exactly.
     With the LITERAL rule (the tail always goes with a dropped element) a rename across the
     text-tag boundary fails C09: <p>a<img/>b</p> vs <q>ab</q> with text_tags = p prints
     <q diff:rename="p">a<img diff:delete=""/>b</q>, whose literal acceptance is <q>a</q>. *)
From Coq Require Import List NArith Bool Arith.
Import ListNotations.
Require Import XV.Str XV.Forest XV.Matcher XV.Differ XV.Path.
Require XV.Placeholder.
Local Open Scope N_scope.

Notation xtree := Placeholder.xtree.
Notation XNode := Placeholder.XNode.
Notation xtag := Placeholder.xtag.
Notation xattrs := Placeholder.xattrs.
Notation xtext := Placeholder.xtext.
Notation xtail := Placeholder.xtail.
Notation xkids := Placeholder.xkids.
Notation otxt := Placeholder.otxt.

(* "{http://namespaces.shoobx.com/diff}" ++ local *)
Definition dn (local : str) : str := Placeholder.DIFF_NS_BRACED ++ local.
Definition l_insert : str := [105;110;115;101;114;116].
Definition l_delete : str := [100;101;108;101;116;101].
Definition l_replace : str := [114;101;112;108;97;99;101].
Definition l_rename : str := [114;101;110;97;109;101].
Definition l_add_attr : str := [97;100;100;45;97;116;116;114].
Definition l_delete_attr : str := [100;101;108;101;116;101;45;97;116;116;114].
Definition l_rename_attr : str := [114;101;110;97;109;101;45;97;116;116;114].
Definition l_update_attr : str := [117;112;100;97;116;101;45;97;116;116;114].
Definition l_insert_formatting : str := [105;110;115;101;114;116;45;102;111;114;109;97;116;116;105;110;103].
Definition l_delete_formatting : str := [100;101;108;101;116;101;45;102;111;114;109;97;116;116;105;110;103].
Definition l_old_text : str := [111;108;100;45;116;101;120;116].

Fixpoint prefixb (p s : str) : bool :=
  match p, s with
  | [], _ => true
  | a :: p', b :: s' => N.eqb a b && prefixb p' s'
  | _ :: _, [] => false
  end.
Definition is_diff_name (k : str) : bool := prefixb Placeholder.DIFF_NS_BRACED k.

Inductive wkind := WIns | WDel | WRep.
Definition wrapper_kind (t : xtree) : option wkind :=
  if str_eqb (xtag t) (dn l_insert) then Some WIns
  else if str_eqb (xtag t) (dn l_delete) then Some WDel
  else if str_eqb (xtag t) (dn l_replace) then Some WRep
  else None.

(* the value that stands for "not recorded" (U+0000 cannot occur in an XML document) *)
Definition WILD : str := [0].

(* ---- annotation strings ---- *)
(* "a;b;c" -> [a; b; c]; a ';' inside {..} (a namespace URI) does not separate *)
Fixpoint split_names (s cur : str) (depth : nat) : list str :=
  match s with
  | [] => [rev cur]
  | c :: r =>
      if (c =? 59) && Nat.eqb depth 0 then rev cur :: split_names r [] 0
      else split_names r (c :: cur) (if c =? 123 then S depth else if c =? 125 then Nat.pred depth else depth)
  end.
Definition names_of (o : option str) : list str :=
  match o with None => [] | Some s => split_names s [] 0 end.
(* "name:rest" -> (name, rest), the first ':' outside {..} *)
Fixpoint split_colon (s cur : str) (depth : nat) : option (str * str) :=
  match s with
  | [] => None
  | c :: r =>
      if (c =? 58) && Nat.eqb depth 0 then Some (rev cur, r)
      else split_colon r (c :: cur) (if c =? 123 then S depth else if c =? 125 then Nat.pred depth else depth)
  end.
Definition pairs_of (o : option str) : list (str * str) :=
  flat_map (fun it => match split_colon it [] 0 with Some p => [p] | None => [] end) (names_of o).

Definition plain_attrs (a : list (str * str)) : list (str * str) :=
  filter (fun kv => negb (is_diff_name (fst kv))) a.

(* reject: undo, in reverse order of the differ's attribute phase, the deletions (value not
   recorded), the insertions, the renamings and the updates *)
Definition rename_back (a : list (str * str)) (on : str * str) : list (str * str) :=
  match aget a (snd on) with
  | Some v => aput (adel a (snd on)) (fst on) v
  | None => a
  end.
Definition old_attrs (a : list (str * str)) : list (str * str) :=
  let a1 := fold_left (fun acc k => aput acc k WILD) (names_of (aget a (dn l_delete_attr))) (plain_attrs a) in
  let a2 := fold_left adel (names_of (aget a (dn l_add_attr))) a1 in
  let a3 := fold_left rename_back (rev (pairs_of (aget a (dn l_rename_attr)))) a2 in
  fold_left (fun acc kv => aput acc (fst kv) (snd kv)) (rev (pairs_of (aget a (dn l_update_attr)))) a3.

Section Proj.
Variable accepting : bool.      (* true: accept every marked change; false: reject every marked change *)

(* the element goes (with the text region after it) *)
Definition goes (t : xtree) : bool := ahas (xattrs t) (dn (if accepting then l_delete else l_insert)).

(* what a wrapper stands for *)
Definition wrapper_text (k : wkind) (t : xtree) : str :=
  match k, accepting with
  | WIns, true | WDel, false | WRep, true => otxt (xtext t)
  | WIns, false | WDel, true => []
  | WRep, false => match aget (xattrs t) l_old_text with Some o => o | None => [] end
  end.

Definition proj_tag (t : xtree) : str :=
  if accepting then xtag t
  else match aget (xattrs t) (dn l_rename) with Some old => old | None => xtag t end.
Definition proj_attrs (t : xtree) : list (str * str) :=
  if accepting then plain_attrs (xattrs t) else old_attrs (xattrs t).

(* the state of the scan over a child list: the text of the parent so far, the children
   kept so far (last first; text after a kept child goes to its tail), and whether the
   last element met has been dropped (its text region is then dropped as well) *)
Definition pst := (str * list xtree * bool)%type.
Definition push (piece : str) (st : pst) : pst :=
  let '(txt, acc, d) := st in
  match acc with
  | [] => (txt ++ piece, [], d)
  | e :: acc' => (txt, XNode (xtag e) (xattrs e) (xtext e) (xtail e ++ piece) (xkids e) :: acc', d)
  end.

Fixpoint proj (t : xtree) : xtree :=
  match t with
  | XNode tag attrs text tail kids =>
      let '(txt, ks, _) :=
        (fix go (ks : list xtree) (st : pst) {struct ks} : pst :=
           match ks with
           | [] => st
           | k :: r =>
               let '(txt, acc, dropping) := st in
               match wrapper_kind k with
               | Some w => go r (if dropping then st else push (wrapper_text w k ++ xtail k) st)
               | None =>
                   if goes k then go r (txt, acc, true)
                   else
                     let k' := proj k in
                     go r (txt, XNode (xtag k') (xattrs k') (xtext k') (xtail k) (xkids k') :: acc, false)
               end
           end) kids (otxt text, [], false) in
      XNode (proj_tag t) (proj_attrs t) (Some txt) tail (rev ks)
  end.
End Proj.

Definition accept (t : xtree) : xtree := proj true t.
Definition reject (t : xtree) : xtree := proj false t.

(* ---- the equalities the properties speak of ---- *)
(* canonical form: attributes sorted by name, absent text = empty text, the tail of the
   root outside the document; with [ws] every text and tail is whitespace-normalised
   (utils.cleanup_whitespace(..).strip(), what XMLFormatter does when normalize & WS_TEXT) *)
Definition ntxt (ws : bool) (s : str) : str := if ws then Str.strip (cleanup_whitespace s) else s.
Fixpoint canon (ws : bool) (t : xtree) : xtree :=
  match t with
  | XNode tag attrs text tail kids =>
      XNode tag (sort_attrs attrs) (Some (ntxt ws (otxt text))) (ntxt ws tail) (map (canon ws) kids)
  end.
Definition drop_root_tail (t : xtree) : xtree := XNode (xtag t) (xattrs t) (xtext t) [] (xkids t).
Definition xequiv (ws : bool) (a b : xtree) : Prop :=
  canon ws (drop_root_tail a) = canon ws (drop_root_tail b).

(* the same, except that a WILD attribute value on the left matches any value *)
Definition attr_r (a b : str * str) : Prop := fst a = fst b /\ (snd a = WILD \/ snd a = snd b).
Inductive xequiv_r_aux : xtree -> xtree -> Prop :=
| XER tag a1 a2 text tail k1 k2 :
    Forall2 attr_r a1 a2 -> Forall2 xequiv_r_aux k1 k2 ->
    xequiv_r_aux (XNode tag a1 text tail k1) (XNode tag a2 text tail k2).
Definition xequiv_r (ws : bool) (a b : xtree) : Prop :=
  xequiv_r_aux (canon ws (drop_root_tail a)) (canon ws (drop_root_tail b)).

(* boolean versions, for evaluating the statements on concrete trees *)
Definition xequivb (ws : bool) (a b : xtree) : bool :=
  Placeholder.xtree_eqb (canon ws (drop_root_tail a)) (canon ws (drop_root_tail b)).
Fixpoint attrs_rb (a b : list (str * str)) : bool :=
  match a, b with
  | [], [] => true
  | (k, v) :: a', (k', v') :: b' => str_eqb k k' && (str_eqb v WILD || str_eqb v v') && attrs_rb a' b'
  | _, _ => false
  end.
Fixpoint xequiv_r_auxb (a b : xtree) {struct a} : bool :=
  match a, b with
  | XNode t1 a1 x1 l1 k1, XNode t2 a2 x2 l2 k2 =>
      str_eqb t1 t2 && attrs_rb a1 a2 && Placeholder.ostr_eqb x1 x2 && str_eqb l1 l2 &&
      (fix go (k1 k2 : list xtree) {struct k1} : bool :=
         match k1, k2 with
         | [], [] => true
         | c1 :: r1, c2 :: r2 => xequiv_r_auxb c1 c2 && go r1 r2
         | _, _ => false
         end) k1 k2
  end.
Definition xequiv_rb (ws : bool) (a b : xtree) : bool :=
  xequiv_r_auxb (canon ws (drop_root_tail a)) (canon ws (drop_root_tail b)).
