(* formatting.XmlDiffFormatter -- the legacy "old" (xmldiff 0.6 style) formatter.
   Model only -- no proofs in this file.

   XmlDiffFormatter.format(diff, orig_tree):
     tree  = deepcopy(orig_tree) (its root element);
     nsmap = the root's prefix declarations without the default namespace, ONE
             dict shared by the formatter (namespaces= of its xpath calls) and by
             the patch.Patcher that keeps `tree` in step with the actions;
     for every action:  the tuples yielded by _handle_<Action>(action, tree) are
             collected, THEN Patcher.handle_action(action, tree) is run;
     finally every tuple is rendered "[" + ", ".join(tuple) + "]" and the lines
     are joined by "\n" (TypeError when a tuple holds a non-str, e.g. the None
     prefix of InsertNamespace/DeleteNamespace for the default namespace).

   The patcher step is NOT re-modelled here: it is PatcherDSL.handle_action over
   the programs the translator reads out of patch.py on every run.

   Python expression semantics written into the handlers (pyval = str|None|int):
   f"{v}", "%s" % v, "{0}".format(v), str(v)  ->  py_str v  (total);
   v + "lit"                                 ->  TypeError unless v is a str;
   v == 0                                    ->  true exactly for the int 0;
   v - 1                                     ->  TypeError unless v is an int;
   tree.xpath(v, namespaces=nsmap)[0]        ->  TypeError (v not a str),
                                                 XPathEvalError (syntax / unbound prefix),
                                                 IndexError (empty node set);
   element[i]                                ->  Python indexing, negative i counts from
                                                 the end, IndexError outside;
   node.attrib[k]                            ->  TypeError (k not a str), KeyError.
   Evaluation order is the implementation's (left to right, arguments before the call). *)
From Coq Require Import List NArith ZArith Bool Arith.
Import ListNotations.
Require Import XV.Str XV.Json XV.TextFormat XV.Forest XV.Matcher XV.Differ XV.Path
               XV.PatcherDSL XV.Gen.TextTables XV.Gen.PatcherProg XV.Render.
Local Open Scope N_scope.

Inductive oerr := OIndexError | OKeyError | OXPathEvalError | OTypeError | OAttributeError
                | OAssertionError | OValueError.
Inductive ores (A : Type) := OOk (a : A) | OErr (e : oerr).
Arguments OOk {A} a. Arguments OErr {A} e.

Definition obind {A B} (r : ores A) (f : A -> ores B) : ores B :=
  match r with OOk a => f a | OErr e => OErr e end.

Definition of_perr (e : perr) : oerr :=
  match e with
  | PIndexError => OIndexError | PXPathEvalError => OXPathEvalError
  | PAssertionError => OAssertionError | PKeyError => OKeyError
  | PAttributeError => OAttributeError | PTypeError => OTypeError | PValueError => OValueError
  end.

(* ---- literals ---- *)
Definition k_remove : str := [114;101;109;111;118;101].
Definition k_insert : str := [105;110;115;101;114;116].
Definition k_insert_first : str := [105;110;115;101;114;116;45;102;105;114;115;116].
Definition k_insert_after : str := [105;110;115;101;114;116;45;97;102;116;101;114].
Definition k_move_first : str := [109;111;118;101;45;102;105;114;115;116].
Definition k_move_after : str := [109;111;118;101;45;97;102;116;101;114].
Definition k_update : str := [117;112;100;97;116;101].
Definition k_rename : str := [114;101;110;97;109;101].
Definition k_insert_comment : str := [105;110;115;101;114;116;45;99;111;109;109;101;110;116].
Definition k_insert_namespace : str := [105;110;115;101;114;116;45;110;97;109;101;115;112;97;99;101].
Definition k_delete_namespace : str := [100;101;108;101;116;101;45;110;97;109;101;115;112;97;99;101].
Definition s_None : str := [78;111;110;101].
Definition s_at : str := [47;64].                               (* "/@" *)
Definition s_text1 : str := [47;116;101;120;116;40;41;91;49;93]. (* "/text()[1]" *)
Definition s_text2 : str := [47;116;101;120;116;40;41;91;50;93]. (* "/text()[2]" *)
Definition s_nl_lt_at : str := [10;60;64].                      (* "\n<@" *)
Definition s_gt_nl : str := [62;10].                            (* ">\n" *)
Definition s_nl_lt_sl_at : str := [10;60;47;64].                (* "\n</@" *)
Definition s_gt : str := [62].                                  (* ">" *)
Definition s_nl_lt : str := [10;60].                            (* "\n<" *)
Definition s_sl_gt : str := [47;62].                            (* "/>" *)
Definition f_node : str := [110;111;100;101].
Definition f_target : str := [116;97;114;103;101;116].
Definition f_tag : str := [116;97;103].
Definition f_position : str := [112;111;115;105;116;105;111;110].
Definition f_text : str := [116;101;120;116].
Definition f_name : str := [110;97;109;101].
Definition f_value : str := [118;97;108;117;101].
Definition f_oldname : str := [111;108;100;110;97;109;101].
Definition f_newname : str := [110;101;119;110;97;109;101].
Definition f_prefix : str := [112;114;101;102;105;120].
Definition f_uri : str := [117;114;105].

(* ---- Python expression semantics ---- *)
(* str(v), f"{v}", "%s" % v, "{0}".format(v) *)
Definition py_str (v : pyval) : str :=
  match v with PStr s => s | PNone => s_None | PInt z => str_of_Z z end.

(* v + literal *)
Definition py_add_str (v : pyval) (lit : str) : ores str :=
  match v with PStr s => OOk (s ++ lit) | _ => OErr OTypeError end.

(* v == 0 *)
Definition py_is_zero (v : pyval) : bool :=
  match v with PInt z => Z.eqb z 0 | _ => false end.

(* v - 1 *)
Definition py_pred (v : pyval) : ores Z :=
  match v with PInt z => OOk (z - 1)%Z | _ => OErr OTypeError end.

(* "\n<@{0}>\n{1}\n</@{0}>".format(name, value) *)
Definition attr_payload (name value : pyval) : str :=
  s_nl_lt_at ++ py_str name ++ s_gt_nl ++ py_str value ++ s_nl_lt_sl_at ++ py_str name ++ s_gt.

(* "\n<%s/>" % tag *)
Definition tag_payload (tag : pyval) : str := s_nl_lt ++ py_str tag ++ s_sl_gt.

(* f"{node}/@{name}" *)
Definition attr_path (node name : pyval) : str := py_str node ++ s_at ++ py_str name.

(* action.<name> : the namedtuple field (AttributeError when the class has no such field) *)
Definition fld (a : gaction) (name : str) : ores pyval :=
  match field actions_sig a name with Some v => OOk v | None => OErr OAttributeError end.

Section Handlers.
Variable pe : penv.
Variable root : id.

(* tree.xpath(v, namespaces=self._nsmap)[0] *)
Definition resolve (s : pstate) (v : pyval) : ores id :=
  match v with
  | PStr ps =>
      match path_of_str ps with
      | None => OErr OXPathEvalError
      | Some p =>
          match eval_all (ps_env s) (ps_f s) root p with
          | None => OErr OXPathEvalError
          | Some [] => OErr OIndexError
          | Some (n :: _) => OOk n
          end
      end
  | _ => OErr OTypeError
  end.

(* element[i] *)
Definition child_at (f : forest) (n : id) (i : Z) : ores id :=
  let ks := kidsof f n in
  let j := if (i <? 0)%Z then (i + Z.of_nat (length ks))%Z else i in
  if (j <? 0)%Z then OErr OIndexError
  else match nth_error ks (Z.to_nat j) with Some c => OOk c | None => OErr OIndexError end.

(* target.index(node) for a child of target *)
Fixpoint index_in (x : id) (l : list id) : nat :=
  match l with
  | [] => O
  | y :: r => if Nat.eqb y x then O else S (index_in x r)
  end.

(* node.attrib[k] *)
Definition attrib_get (f : forest) (n : id) (k : pyval) : ores str :=
  match k with
  | PStr key => match aget (lattrs (labof f n)) key with Some v => OOk v | None => OErr OKeyError end
  | _ => OErr OTypeError
  end.

(* utils.getpath(node) on the tracked tree *)
Definition getpath_str (f : forest) (n : id) : str := path_to_str (getpath pe f root n).

(* One tuple = the items handed to ", ".join; a non-str item is kept as it is
   (the TypeError comes at the very end, in _format_action). *)
Definition tuple_ := list pyval.

Definition h_DeleteAttrib (s : pstate) (a : gaction) : ores (list tuple_) :=
  obind (fld a f_node) (fun node => obind (fld a f_name) (fun name =>
  OOk [[PStr k_remove; PStr (attr_path node name)]])).

Definition h_DeleteNode (s : pstate) (a : gaction) : ores (list tuple_) :=
  obind (fld a f_node) (fun node => OOk [[PStr k_remove; node]]).

Definition h_InsertAttrib (s : pstate) (a : gaction) : ores (list tuple_) :=
  obind (fld a f_name) (fun name => obind (fld a f_value) (fun value => obind (fld a f_node) (fun node =>
  OOk [[PStr k_insert; node; PStr (attr_payload name value)]]))).

Definition h_InsertNode (s : pstate) (a : gaction) : ores (list tuple_) :=
  obind (fld a f_position) (fun position =>
  if py_is_zero position then
    obind (fld a f_target) (fun target => obind (fld a f_tag) (fun tag =>
    OOk [[PStr k_insert_first; target; PStr (tag_payload tag)]]))
  else
    obind (fld a f_target) (fun target =>
    obind (resolve s target) (fun t =>
    obind (py_pred position) (fun i =>
    obind (child_at (ps_f s) t i) (fun sibling =>
    obind (fld a f_tag) (fun tag =>
    OOk [[PStr k_insert_after; PStr (getpath_str (ps_f s) sibling); PStr (tag_payload tag)]])))))).

Definition h_RenameAttrib (s : pstate) (a : gaction) : ores (list tuple_) :=
  obind (fld a f_node) (fun node =>
  obind (resolve s node) (fun n =>
  obind (fld a f_oldname) (fun oldname =>
  obind (attrib_get (ps_f s) n oldname) (fun value =>
  obind (fld a f_newname) (fun newname =>
  OOk [[PStr k_remove; PStr (attr_path node oldname)];
       [PStr k_insert; node; PStr (attr_payload newname (PStr value))]]))))).

Definition h_MoveNode (s : pstate) (a : gaction) : ores (list tuple_) :=
  obind (fld a f_position) (fun position =>
  if py_is_zero position then
    obind (fld a f_node) (fun node => obind (fld a f_target) (fun target =>
    OOk [[PStr k_move_first; node; target]]))
  else
    obind (fld a f_node) (fun node =>
    obind (resolve s node) (fun n =>
    obind (fld a f_target) (fun target =>
    obind (resolve s target) (fun t =>
    obind (py_pred position) (fun p0 =>
    let p1 := match parentof (ps_f s) n with
              | Some q => if Nat.eqb q t
                          then (if (Z.of_nat (index_in n (kidsof (ps_f s) t)) <=? p0)%Z then (p0 + 1)%Z else p0)
                          else p0
              | None => p0
              end in
    obind (child_at (ps_f s) t p1) (fun sibling =>
    OOk [[PStr k_move_after; node; PStr (getpath_str (ps_f s) sibling)]]))))))).

Definition h_UpdateAttrib (s : pstate) (a : gaction) : ores (list tuple_) :=
  obind (fld a f_node) (fun node => obind (fld a f_name) (fun name => obind (fld a f_value) (fun value =>
  OOk [[PStr k_update; PStr (attr_path node name); PStr (dumps value)]]))).

Definition h_UpdateText (suffix : str) (s : pstate) (a : gaction) : ores (list tuple_) :=
  obind (fld a f_node) (fun node => obind (py_add_str node suffix) (fun p =>
  obind (fld a f_text) (fun text => OOk [[PStr k_update; PStr p; PStr (dumps text)]]))).

Definition h_RenameNode (s : pstate) (a : gaction) : ores (list tuple_) :=
  obind (fld a f_node) (fun node => obind (fld a f_tag) (fun tag => OOk [[PStr k_rename; node; tag]])).

Definition h_InsertComment (s : pstate) (a : gaction) : ores (list tuple_) :=
  obind (fld a f_target) (fun target => obind (fld a f_position) (fun position => obind (fld a f_text) (fun text =>
  OOk [[PStr k_insert_comment; target; PStr (py_str position); text]]))).

Definition h_InsertNamespace (s : pstate) (a : gaction) : ores (list tuple_) :=
  obind (fld a f_prefix) (fun prefix => obind (fld a f_uri) (fun uri =>
  OOk [[PStr k_insert_namespace; prefix; uri]])).

Definition h_DeleteNamespace (s : pstate) (a : gaction) : ores (list tuple_) :=
  obind (fld a f_prefix) (fun prefix => OOk [[PStr k_delete_namespace; prefix]]).

(* getattr(self, "_handle_" + type(action).__name__) *)
Definition old_handlers : list (str * (pstate -> gaction -> ores (list tuple_))) :=
  [ (n_DeleteAttrib, h_DeleteAttrib); (n_DeleteNode, h_DeleteNode); (n_InsertAttrib, h_InsertAttrib);
    (n_InsertNode, h_InsertNode); (n_RenameAttrib, h_RenameAttrib); (n_MoveNode, h_MoveNode);
    (n_UpdateAttrib, h_UpdateAttrib); (n_UpdateTextIn, h_UpdateText s_text1);
    (n_UpdateTextAfter, h_UpdateText s_text2); (n_RenameNode, h_RenameNode);
    (n_InsertComment, h_InsertComment); (n_InsertNamespace, h_InsertNamespace);
    (n_DeleteNamespace, h_DeleteNamespace) ].

Definition old_handle (s : pstate) (a : gaction) : ores (list tuple_) :=
  match find (fun p => str_eqb (fst p) (ga_ctor a)) old_handlers with
  | Some (_, h) => h s a
  | None => OErr OAttributeError
  end.

(* the patcher step that keeps the tree (and the shared nsmap) in step *)
Definition patcher_step (s : pstate) (a : gaction) : ores pstate :=
  match handle_action actions_sig true root patcher_progs s a with
  | POk s' => OOk s'
  | PErr e => OErr (of_perr e)
  end.

(* the loop of XmlDiffFormatter.format: all tuples, in order *)
Fixpoint old_loop (s : pstate) (acts : list gaction) : ores (list tuple_) :=
  match acts with
  | [] => OOk []
  | a :: r =>
      obind (old_handle s a) (fun ts =>
      obind (patcher_step s a) (fun s' =>
      obind (old_loop s' r) (fun ts' => OOk (ts ++ ts'))))
  end.

End Handlers.

(* _format_action: "[%s]" % ", ".join(action) *)
Fixpoint tuple_strs (t : tuple_) : ores (list str) :=
  match t with
  | [] => OOk []
  | PStr s :: r => obind (tuple_strs r) (fun l => OOk (s :: l))
  | _ :: _ => OErr OTypeError
  end.
Definition s_comma_sp : str := [44; 32].
Definition format_entry (t : tuple_) : ores str :=
  obind (tuple_strs t) (fun l => OOk (91 :: join s_comma_sp l ++ [93])).

Fixpoint omapM {A B} (f : A -> ores B) (l : list A) : ores (list B) :=
  match l with
  | [] => OOk []
  | x :: r => obind (f x) (fun y => obind (omapM f r) (fun ys => OOk (y :: ys)))
  end.

(* "\n".join(self._format_action(action) for action in actions) *)
Definition render_entries (ts : list tuple_) : ores str :=
  obind (omapM format_entry ts) (fun lines => OOk (join [10] lines)).

(* self._nsmap: the root's nsmap without the default namespace *)
Definition old_env (root_nsmap : list (option str * str)) : nsenv :=
  flat_map (fun kv => match fst kv with Some p => [(p, snd kv)] | None => [] end) root_nsmap.

(* the tuples XmlDiffFormatter.format collects (one bracketed entry each) *)
Definition old_entries (pe : penv) (f : forest) (root : id) (root_nsmap : list (option str * str))
                       (acts : list gaction) : ores (list tuple_) :=
  old_loop pe root (PS f (old_env root_nsmap) (fun _ => None)) acts.

(* XmlDiffFormatter().format(acts, tree) *)
Definition old_format (pe : penv) (f : forest) (root : id) (root_nsmap : list (option str * str))
                      (acts : list gaction) : ores str :=
  obind (old_entries pe f root root_nsmap acts) render_entries.

(* number of bracketed entries of a successful run (0 when it raises) *)
Definition old_entry_count (pe : penv) (f : forest) (root : id) (root_nsmap : list (option str * str))
                           (acts : list gaction) : nat :=
  match old_entries pe f root root_nsmap acts with OOk ts => length ts | OErr _ => O end.
