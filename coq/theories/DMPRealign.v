(* XMLFormatter._realign_placeholders only moves/drops/adds CLOSE placeholders;
   _join_delete_insert keeps both texts. *)
From Coq Require Import List ZArith NArith Bool Lia.
Import ListNotations.
Require Import XV.DMP XV.DMPBase.
Local Open Scope Z_scope.

(* ------------------------------------------------------------------ *)
(** * erasing placeholders *)

Lemma erase_close_app cls a b : erase_close cls (a ++ b) = erase_close cls a ++ erase_close cls b.
Proof. unfold erase_close. apply filter_app. Qed.

Lemma erase_oc_close cls s : erase_oc cls s = filter (fun c => negb (is_open cls c)) (erase_close cls s).
Proof.
  unfold erase_oc, erase_close. induction s as [|c s IH]; [reflexivity|]. cbn [filter].
  destruct (is_close cls c); cbn [negb]; rewrite ?orb_true_r, ?orb_false_r; cbn [negb].
  - exact IH.
  - cbn [filter]. destruct (is_open cls c); cbn [negb]; now rewrite IH.
Qed.

(* ------------------------------------------------------------------ *)
(** * split_string *)

Lemma flush_concat cur : concat (flush cur) = rev cur.
Proof. destruct cur; [reflexivity|]. cbn [flush concat]. now rewrite app_nil_r. Qed.

Lemma split_acc_concat cls text cur : concat (split_acc cls text cur) = rev cur ++ text.
Proof.
  revert cur. induction text as [|c r IH]; intros cur; cbn [split_acc].
  - now rewrite flush_concat, app_nil_r.
  - destruct (cls c).
    + rewrite concat_app, flush_concat. cbn [concat]. rewrite IH. reflexivity.
    + rewrite IH. cbn [rev]. now rewrite <- app_assoc.
Qed.

Lemma split_string_concat cls text : concat (split_string cls text) = text.
Proof. unfold split_string. now rewrite split_acc_concat. Qed.

Lemma flush_nonempty cur : Forall (fun sg : str => sg <> []) (flush cur).
Proof.
  destruct cur as [|c cur]; [constructor|]. repeat constructor.
  cbn [rev]. intros H. apply app_eq_nil in H as [_ H]. discriminate.
Qed.

Lemma split_acc_nonempty cls text cur : Forall (fun sg : str => sg <> []) (split_acc cls text cur).
Proof.
  revert cur. induction text as [|c r IH]; intros cur; cbn [split_acc].
  - apply flush_nonempty.
  - destruct (cls c).
    + apply Forall_app. split; [apply flush_nonempty|]. constructor; [discriminate|apply IH].
    + apply IH.
Qed.

(* ------------------------------------------------------------------ *)
(** * _realign_placeholders *)

Section Realign.
  Variable cls : cls_t.
  Hypothesis Hwf : wf_cls cls.
  Variable k : op -> bool.

  Definition ek (d : list seg) : str := erase_close cls (proj k d).

  Lemma ek_app a b : ek (a ++ b) = ek a ++ ek b.
  Proof. unfold ek. now rewrite proj_app, erase_close_app. Qed.

  Lemma ek_sing_close o c : is_close cls c = true -> ek [(o, [c])] = [].
  Proof.
    intros H. unfold ek. rewrite proj_cons, proj_nil, app_nil_r. destruct (k o); [|reflexivity].
    unfold erase_close. cbn [filter]. now rewrite H.
  Qed.

  Definition stack_ok (st : rstack) : Prop :=
    Forall (fun e => match snd e with Some cl => is_close cls cl = true | None => True end) st.

  Lemma close_loop_spec c st nd sop st' nd' :
    stack_ok st -> close_loop c st nd = Ok (sop, st', nd') ->
    stack_ok st' /\ ek nd' = ek nd /\ (Forall nonempty nd -> Forall nonempty nd').
  Proof.
    revert nd. induction st as [|[so cl] st IH]; intros nd Hst H; cbn [close_loop] in H.
    - ok_inv. repeat split; auto.
    - inversion Hst as [|? ? Hcl Hst']; subst. cbn [snd] in Hcl.
      destruct cl as [clc|]; [|discriminate].
      destruct (N.eqb clc c).
      + ok_inv. repeat split; auto.
      + apply IH in H as (H1 & H2 & H3); [|assumption].
        split; [assumption|]. split.
        * rewrite H2, ek_app, ek_sing_close by assumption. now rewrite app_nil_r.
        * intros Hn. apply H3. apply Forall_app. split; [assumption|]. repeat constructor. discriminate.
  Qed.

  Definition kpart (o : op) (t : str) : str := erase_close cls (if k o then t else []).

  Lemma ek_snoc nd o t : ek (nd ++ [(o, t)]) = ek nd ++ kpart o t.
  Proof. rewrite ek_app. unfold ek at 2, kpart. now rewrite proj_cons, proj_nil, app_nil_r. Qed.

  Lemma realign_seg_spec o sg nd st nd' st' : sg <> [] ->
    stack_ok st -> realign_seg cls o sg (nd, st) = Ok (nd', st') ->
    stack_ok st' /\ ek nd' = ek nd ++ kpart o sg /\ (Forall nonempty nd -> Forall nonempty nd').
  Proof.
    intros Hsg Hst H. unfold realign_seg in H.
    assert (Happ : forall st1, stack_ok st1 ->
              stack_ok st1 /\ ek (nd ++ [(o, sg)]) = ek nd ++ kpart o sg /\
              (Forall nonempty nd -> Forall nonempty (nd ++ [(o, sg)]))).
    { intros st1 H1. split; [assumption|]. split; [apply ek_snoc|].
      intros Hn. apply Forall_app. split; [assumption|]. repeat constructor. exact Hsg. }
    destruct sg as [|c [|c' sg']]; [congruence| |ok_inv; now apply Happ].
    destruct (cls c) as [[ty cl]|] eqn:Ec; [|ok_inv; now apply Happ].
    destruct ty.
    - (* OPEN *) ok_inv. apply Happ. constructor; [|assumption]. cbn [snd].
      destruct cl as [x|]; [|exact I]. apply (Hwf c x). assumption.
    - (* CLOSE *)
      assert (Hc : is_close cls c = true) by (unfold is_close; now rewrite Ec).
      inv_bind H as r Er. destruct r as [[sop st1] nd1].
      apply close_loop_spec in Er as (S1 & E1 & N1); [|assumption].
      assert (Hk : kpart o [c] = []).
      { unfold kpart. destruct (k o); [|reflexivity]. unfold erase_close. cbn [filter]. now rewrite Hc. }
      destruct sop as [so|].
      + destruct (op_code so <=? op_code o); [|discriminate]. ok_inv.
        split; [assumption|]. split.
        * rewrite ek_snoc, E1. reflexivity.
        * intros Hn. apply Forall_app. split; [auto|]. repeat constructor. discriminate.
      + ok_inv. split; [assumption|]. split; [|assumption]. rewrite Hk, app_nil_r. assumption.
    - (* SINGLE *) ok_inv. now apply Happ.
  Qed.

  Lemma kpart_app o a b : kpart o (a ++ b) = kpart o a ++ kpart o b.
  Proof. unfold kpart. destruct (k o); [apply erase_close_app|reflexivity]. Qed.

  Lemma realign_segs_spec o sgs nd st nd' st' : Forall (fun sg : str => sg <> []) sgs ->
    stack_ok st -> realign_segs cls o sgs (nd, st) = Ok (nd', st') ->
    stack_ok st' /\ ek nd' = ek nd ++ kpart o (concat sgs) /\ (Forall nonempty nd -> Forall nonempty nd').
  Proof.
    revert nd st. induction sgs as [|sg sgs IH]; intros nd st Hne Hst H; cbn [realign_segs] in H.
    - ok_inv. split; [assumption|]. split; [|auto]. cbn [concat]. unfold kpart.
      destruct (k o); cbn; now rewrite app_nil_r.
    - inversion Hne as [|? ? Hsg Hne']; subst.
      inv_bind H as s1 E1. destruct s1 as [nd1 st1].
      apply realign_seg_spec in E1 as (S1 & K1 & N1); [|assumption|assumption].
      apply IH in H as (S2 & K2 & N2); [|assumption|assumption].
      split; [assumption|]. split; [|auto].
      cbn [concat]. rewrite K2, K1, kpart_app. now rewrite app_assoc.
  Qed.

  Lemma realign_loop_spec d nd st nd' st' :
    stack_ok st -> realign_loop cls d (nd, st) = Ok (nd', st') ->
    stack_ok st' /\ ek nd' = ek nd ++ ek d /\ (Forall nonempty nd -> Forall nonempty nd').
  Proof.
    revert nd st. induction d as [|[o t] d IH]; intros nd st Hst H; cbn [realign_loop] in H.
    - ok_inv. split; [assumption|]. split; [|auto]. unfold ek at 3. cbn. now rewrite app_nil_r.
    - inv_bind H as s1 E1. destruct s1 as [nd1 st1].
      apply realign_segs_spec in E1 as (S1 & K1 & N1); [|apply split_acc_nonempty|assumption].
      apply IH in H as (S2 & K2 & N2); [|assumption].
      split; [assumption|]. split; [|auto].
      rewrite K2, K1, split_string_concat.
      change ((o, t) :: d) with ([(o, t)] ++ d). rewrite (ek_app [(o, t)] d).
      unfold ek at 4. rewrite proj_cons, proj_nil, app_nil_r. fold (kpart o t). now rewrite app_assoc.
  Qed.
End Realign.

Theorem realign_spec cls d d' : wf_cls cls -> realign cls d = Ok d' ->
  erase_close cls (t1 d') = erase_close cls (t1 d) /\
  erase_close cls (t2 d') = erase_close cls (t2 d) /\
  Forall (fun s => snd s <> []) d'.
Proof.
  intros Hwf H. unfold realign in H. inv_bind H as r Er. destruct r as [nd st]. ok_inv.
  split; [|split].
  - apply (realign_loop_spec cls Hwf keep1) in Er as (_ & K & _); [|constructor]. exact K.
  - apply (realign_loop_spec cls Hwf keep2) in Er as (_ & K & _); [|constructor]. exact K.
  - apply (realign_loop_spec cls Hwf keep1) in Er as (_ & _ & N); [|constructor]. apply N. constructor.
Qed.

Corollary realign_spec_oc cls d d' : wf_cls cls -> realign cls d = Ok d' ->
  erase_oc cls (t1 d') = erase_oc cls (t1 d) /\ erase_oc cls (t2 d') = erase_oc cls (t2 d).
Proof.
  intros Hwf H. destruct (realign_spec cls d d' Hwf H) as (H1 & H2 & _).
  rewrite !erase_oc_close, H1, H2. split; reflexivity.
Qed.

(* ------------------------------------------------------------------ *)
(** * _join_delete_insert *)

Definition jproj (k : op -> bool) (j : list jseg) : str :=
  concat (map (fun x => match x with JS o t => if k o then t else [] | JR new old => if k DELETE then old else new end) j).

Lemma jt1_jproj j : jt1 j = jproj keep1 j.
Proof.
  unfold jt1, jproj. f_equal. apply map_ext. intros [o t|n o]; [|reflexivity].
  unfold keep1. now destruct (is_insert o).
Qed.
Lemma jt2_jproj j : jt2 j = jproj keep2 j.
Proof.
  unfold jt2, jproj. f_equal. apply map_ext. intros [o t|n o]; [|reflexivity].
  unfold keep2. now destruct (is_delete o).
Qed.

Lemma jproj_cons k x j : jproj k (x :: j) =
  (match x with JS o t => if k o then t else [] | JR new old => if k DELETE then old else new end) ++ jproj k j.
Proof. reflexivity. Qed.

Lemma jproj_app k a b : jproj k (a ++ b) = jproj k a ++ jproj k b.
Proof. unfold jproj. now rewrite map_app, concat_app. Qed.

Lemma join_aux_cons2 s1 s2 r skip :
  join_aux (s1 :: s2 :: r) skip =
  if skip then join_aux (s2 :: r) false
  else match fst s1, fst s2 with
       | INSERT, DELETE => let '(l, k) := join_aux (s2 :: r) true in (JR (snd s1) (snd s2) :: l, k)
       | DELETE, INSERT => let '(l, k) := join_aux (s2 :: r) true in (JR (snd s2) (snd s1) :: l, k)
       | _, _ => let '(l, k) := join_aux (s2 :: r) false in (JS (fst s1) (snd s1) :: l, k)
       end.
Proof. reflexivity. Qed.

Lemma join_aux_spec k : good_keep k -> forall d skip l k',
  d <> [] -> join_aux d skip = (l, k') ->
  jproj k l ++ (if k' then [] else match last_opt d with Some s => proj k [s] | None => [] end)
  = if skip then proj k (tl d) else proj k d.
Proof.
  intros Hk. induction d as [|s1 d IH]; intros skip l k' Hd H; [congruence|].
  destruct d as [|s2 r].
  - cbn in H. inversion H; subst. cbn [jproj map concat app tl last_opt length Nat.sub nth_error].
    destruct k'; reflexivity.
  - assert (Hl : last_opt (s1 :: s2 :: r) = last_opt (s2 :: r)).
    { unfold last_opt. cbn [length Nat.sub]. rewrite Nat.sub_0_r. reflexivity. }
    rewrite Hl.
    rewrite join_aux_cons2 in H. destruct skip.
    + apply IH in H; [|discriminate]. exact H.
    + destruct s1 as [o1 x1], s2 as [o2 x2]. cbn [fst snd] in H.
      assert (Hgen : forall l' kk, join_aux ((o2, x2) :: r) false = (l', kk) -> l = JS o1 x1 :: l' -> k' = kk ->
                jproj k l ++ (if k' then [] else match last_opt ((o2, x2) :: r) with Some s => proj k [s] | None => [] end)
                = proj k ((o1, x1) :: (o2, x2) :: r)).
      { intros l' kk Hj -> ->. apply IH in Hj; [|discriminate]. cbn [tl] in Hj.
        rewrite jproj_cons, <- app_assoc, Hj. now rewrite (proj_cons k o1 x1). }
      destruct o1, o2; cbn [fst snd] in H;
        match type of H with
        | (let '(_, _) := join_aux ?dd ?b in _) = _ => destruct (join_aux dd b) as [l' kk] eqn:Ej
        end; inversion H; subst; try (apply (Hgen l' k'); reflexivity).
      * (* DELETE, INSERT *)
        apply IH in Ej; [|discriminate]. cbn [tl] in Ej.
        rewrite jproj_cons, <- app_assoc, Ej, !proj_cons.
        destruct Hk as [_ Hx]. rewrite Hx. destruct (k INSERT); cbn; reflexivity.
      * (* INSERT, DELETE *)
        apply IH in Ej; [|discriminate]. cbn [tl] in Ej.
        rewrite jproj_cons, <- app_assoc, Ej, !proj_cons.
        destruct Hk as [_ Hx]. rewrite Hx. destruct (k INSERT); cbn; reflexivity.
Qed.

Theorem join_spec d j : join_delete_insert d = Ok j -> jt1 j = t1 d /\ jt2 j = t2 d.
Proof.
  unfold join_delete_insert. intros H.
  destruct (join_aux d false) as [l sk] eqn:Ej.
  destruct d as [|s0 d0].
  { cbn in Ej. inversion Ej; subst. ok_inv. split; reflexivity. }
  set (d := s0 :: d0) in *.
  assert (Hd : d <> []) by discriminate.
  change (match d with [] => Ok l | _ :: _ => if sk then Ok l else match last_opt d with None => Err IndexError | Some (o, t) => Ok (l ++ [JS o t]) end end)
    with (if sk then Ok l else match last_opt d with None => Err IndexError | Some (o, t) => Ok (l ++ [JS o t]) end) in H.
  clearbody d.
  assert (Hgen : forall k, good_keep k -> jproj k j = proj k d).
  { intros k Hk. pose proof (join_aux_spec k Hk d false l sk Hd Ej) as Hs. cbn iota in Hs.
    destruct sk.
    - ok_inv. now rewrite app_nil_r in Hs.
    - destruct (last_opt d) as [[o t]|]; [|discriminate]. ok_inv.
      rewrite jproj_app, <- Hs. f_equal. rewrite proj_cons, proj_nil. unfold jproj. cbn [map concat]. reflexivity. }
  split.
  - rewrite jt1_jproj, t1_proj. apply Hgen, good_keep1.
  - rewrite jt2_jproj, t2_proj. apply Hgen, good_keep2.
Qed.

Lemma last_opt_cons {A} (x : A) l : exists y, last_opt (x :: l) = Some y.
Proof.
  unfold last_opt. destruct (nth_error (x :: l) (length (x :: l) - 1)) eqn:E; [eauto|].
  apply nth_error_None in E. cbn [length] in E. lia.
Qed.

Theorem join_total d : exists j, join_delete_insert d = Ok j.
Proof.
  unfold join_delete_insert. destruct (join_aux d false) as [l sk].
  destruct d as [|s d']; [eauto|]. destruct sk; [eauto|].
  destruct (last_opt_cons s d') as ([o t] & ->). eauto.
Qed.
